(* s_c07.ml — streams for C07 (DWARF expression decoding, value arithmetic, evaluation).
   Model side: extracted OpDec / OpVal / OpEval (+ StackSpec encoders for structured programs). *)
open Conv
open Streams
open OpDec
open OpVal
open OpEval

(* ------------------------------------------------------------------ float glue (the `fops` instance)
   + - * / use the hardware (binary32 results through binary64 are correctly rounded);
   integer<->float conversions are done exactly with Zarith so that they do not depend on OCaml's
   signed-only primitives. *)
let p2 k = Z.shift_left Z.one k
let m64 = Z.pred (p2 64)
let f64_of_bits (z : Z.t) : float = Int64.float_of_bits (Z.to_int64 (Z.signed_extract z 0 64))
let bits_of_f64 (f : float) : Z.t = Z.logand (Z.of_int64 (Int64.bits_of_float f)) m64
let f32_of_bits (z : Z.t) : float = Int32.float_of_bits (Int32.of_int (Z.to_int (Z.signed_extract z 0 32)))
let bits_of_f32 (f : float) : Z.t = Z.logand (Z.of_int32 (Int32.bits_of_float f)) (Z.pred (p2 32))

(* round-to-nearest-even conversion of a non-negative integer to an IEEE pattern with p significand bits *)
let float_bits_of_nat ~(p : int) ~(ebits : int) (z : Z.t) : Z.t =
  if Z.sign z = 0 then Z.zero else begin
    let n = Z.numbits z in
    let bias = (1 lsl (ebits - 1)) - 1 in
    let mant, e =
      if n <= p then Z.shift_left z (p - n), n - 1
      else begin
        let sh = n - p in
        let q = Z.shift_right z sh in
        let rem = Z.logand z (Z.pred (p2 sh)) in
        let half = p2 (sh - 1) in
        let c = Z.compare rem half in
        let q = if c > 0 || (c = 0 && Z.testbit q 0) then Z.succ q else q in
        if Z.numbits q > p then Z.shift_right q 1, n else q, n - 1
      end in
    (* mant has exactly p bits with the leading one explicit *)
    let frac = Z.logand mant (Z.pred (p2 (p - 1))) in
    Z.logor (Z.shift_left (Z.of_int (e + bias)) (p - 1)) frac
  end

(* `x as iN/uN` for a float given by its pattern: truncation toward zero, saturating, NaN -> 0 *)
let int_of_float_bits ~(src64 : bool) ~(signed : bool) ~(w : int) (bits : Z.t) : Z.t =
  let p, ebits = if src64 then 53, 11 else 24, 8 in
  let total = if src64 then 64 else 32 in
  let sign = Z.testbit bits (total - 1) in
  let e = Z.to_int (Z.logand (Z.shift_right bits (p - 1)) (Z.pred (p2 ebits))) in
  let frac = Z.logand bits (Z.pred (p2 (p - 1))) in
  let bias = (1 lsl (ebits - 1)) - 1 in
  let lo = if signed then Z.neg (p2 (w - 1)) else Z.zero in
  let hi = if signed then Z.pred (p2 (w - 1)) else Z.pred (p2 w) in
  let v =
    if e = (1 lsl ebits) - 1 then
      (if Z.sign frac <> 0 then Z.zero else if sign then lo else hi)
    else begin
      let m, ex = if e = 0 then frac, 1 - bias - (p - 1) else Z.logor frac (p2 (p - 1)), e - bias - (p - 1) in
      let mag = if ex >= 0 then (if ex > 200 then p2 200 else Z.shift_left m ex) else Z.shift_right m (- ex) in
      let x = if sign then Z.neg mag else mag in
      if Z.lt x lo then lo else if Z.gt x hi then hi else x
    end in
  Z.logand v (Z.pred (p2 w))

let the_fops : fops =
  let bin f32op f64op = fun is64 a b ->
    let a = z_of_n a and b = z_of_n b in
    n_of_z (if is64 then bits_of_f64 (f64op (f64_of_bits a) (f64_of_bits b))
            else bits_of_f32 (f32op (f32_of_bits a) (f32_of_bits b))) in
  { f_add = bin ( +. ) ( +. ); f_sub = bin ( -. ) ( -. ); f_mul = bin ( *. ) ( *. ); f_div = bin ( /. ) ( /. );
    f_of_u64 = (fun to64 x ->
      n_of_z (if to64 then float_bits_of_nat ~p:53 ~ebits:11 (z_of_n x) else float_bits_of_nat ~p:24 ~ebits:8 (z_of_n x)));
    f_to_int = (fun src64 signed w bits ->
      n_of_z (int_of_float_bits ~src64 ~signed ~w:(int_of_n w) (z_of_n bits)));
    f_cvt = (fun src64 bits ->
      let b = z_of_n bits in
      n_of_z (if src64 then bits_of_f32 (f64_of_bits b) else bits_of_f64 (f32_of_bits b))) }

(* ------------------------------------------------------------------ canonical text *)
let sn = string_of_n
let sz = string_of_cz
let sb b = if b then "1" else "0"
let sopt f = function None -> "-" | Some x -> f x

let show_op (o : operation) : string =
  match o with
  | ODeref (bt, size, space) -> Printf.sprintf "Deref:%s:%s:%s" (sn bt) (sn size) (sb space)
  | ODrop -> "Drop" | OPick i -> "Pick:" ^ sn i | OSwap -> "Swap" | ORot -> "Rot" | OAbs -> "Abs" | OAnd -> "And"
  | ODiv -> "Div" | OMinus -> "Minus" | OMod -> "Mod" | OMul -> "Mul" | ONeg -> "Neg" | ONot -> "Not" | OOr -> "Or"
  | OPlus -> "Plus" | OPlusConstant v -> "PlusConstant:" ^ sn v | OShl -> "Shl" | OShr -> "Shr" | OShra -> "Shra"
  | OXor -> "Xor" | OBra t -> "Bra:" ^ sz t | OEq -> "Eq" | OGe -> "Ge" | OGt -> "Gt" | OLe -> "Le" | OLt -> "Lt"
  | ONe -> "Ne" | OSkip t -> "Skip:" ^ sz t | OUnsignedConstant v -> "UnsignedConstant:" ^ sn v
  | OSignedConstant v -> "SignedConstant:" ^ sz v | ORegister r -> "Register:" ^ sn r
  | ORegisterOffset (r, off, bt) -> Printf.sprintf "RegisterOffset:%s:%s:%s" (sn r) (sz off) (sn bt)
  | OFrameOffset off -> "FrameOffset:" ^ sz off | ONop -> "Nop" | OPushObjectAddress -> "PushObjectAddress"
  | OCall (UnitRef o) -> "Call:u:" ^ sn o | OCall (DebugInfoRef o) -> "Call:d:" ^ sn o
  | OVariableValue o -> "VariableValue:" ^ sn o | OTLS -> "TLS" | OCallFrameCFA -> "CallFrameCFA"
  | OPiece (s, off) -> Printf.sprintf "Piece:%s:%s" (sn s) (sopt sn off)
  | OImplicitValue d -> "ImplicitValue:" ^ hex_of_bytes d | OStackValue -> "StackValue"
  | OImplicitPointer (v, off) -> Printf.sprintf "ImplicitPointer:%s:%s" (sn v) (sz off)
  | OEntryValue e -> "EntryValue:" ^ hex_of_bytes e | OParameterRef o -> "ParameterRef:" ^ sn o
  | OAddress a -> "Address:" ^ sn a | OAddressIndex i -> "AddressIndex:" ^ sn i | OConstantIndex i -> "ConstantIndex:" ^ sn i
  | OTypedLiteral (bt, v) -> Printf.sprintf "TypedLiteral:%s:%s" (sn bt) (hex_of_bytes v)
  | OConvert bt -> "Convert:" ^ sn bt | OReinterpret bt -> "Reinterpret:" ^ sn bt | OUninitialized -> "Uninitialized"
  | OWasmLocal i -> "WasmLocal:" ^ sn i | OWasmGlobal i -> "WasmGlobal:" ^ sn i | OWasmStack i -> "WasmStack:" ^ sn i

let tname = function
  | TGeneric -> "g" | TI8 -> "i8" | TU8 -> "u8" | TI16 -> "i16" | TU16 -> "u16" | TI32 -> "i32" | TU32 -> "u32"
  | TI64 -> "i64" | TU64 -> "u64" | TF32 -> "f32" | TF64 -> "f64"
let all_types = [| TGeneric; TI8; TU8; TI16; TU16; TI32; TU32; TI64; TU64; TF32; TF64 |]
let int_types = [| TGeneric; TI8; TU8; TI16; TU16; TI32; TU32; TI64; TU64 |]
let twidth t = int_of_n (width t)

(* nanc: print every NaN as `nan` (results of hardware float arithmetic) *)
let show_value ?(nanc = false) ?(canon_bits = 64) (v : value) : string =
  let v = if v.vty = TGeneric && canon_bits < 64 then { v with vbits = n_of_z (Z.logand (z_of_n v.vbits) (Z.pred (Z.shift_left Z.one canon_bits))) } else v in
  let w = width v.vty in
  if nanc && (v.vty = TF32 || v.vty = TF64) && fis_nan w v.vbits then tname v.vty ^ ":nan"
  else tname v.vty ^ ":" ^ sn v.vbits
let mkv t (z : Z.t) : value = { vty = t; vbits = n_of_z z }

let show_loc ?(canon_bits = 64) = function
  | LEmpty -> "E" | LRegister r -> "R:" ^ sn r | LAddress a -> "A:" ^ sn a
  | LValue v -> "V:" ^ show_value ~nanc:true ~canon_bits v | LBytes b -> "B:" ^ hex_of_bytes b
  | LImplicitPointer (v, off) -> Printf.sprintf "IP:%s:%s" (sn v) (sz off)
let show_piece ?(canon_bits = 64) (p : piece) = Printf.sprintf "[%s,%s,%s]" (sopt sn p.p_size) (sopt sn p.p_bit_offset) (show_loc ~canon_bits p.p_loc)
let show_req = function
  | RMemory (a, s, sp, bt) -> Printf.sprintf "Memory:%s:%s:%s:%s" (sn a) (sn s) (sopt sn sp) (sn bt)
  | RRegister (r, bt) -> Printf.sprintf "Register:%s:%s" (sn r) (sn bt)
  | RWasmLocal i -> "WasmLocal:" ^ sn i | RWasmGlobal i -> "WasmGlobal:" ^ sn i | RWasmStack i -> "WasmStack:" ^ sn i
  | RFrameBase -> "FrameBase" | RTls i -> "Tls:" ^ sn i | RCfa -> "CallFrameCfa"
  | RAtLocation (UnitRef o) -> "AtLocation:u:" ^ sn o | RAtLocation (DebugInfoRef o) -> "AtLocation:d:" ^ sn o
  | REntryValue e -> "EntryValue:" ^ hex_of_bytes e | RParameterRef o -> "ParameterRef:" ^ sn o
  | RRelocatedAddress a -> "RelocatedAddress:" ^ sn a
  | RIndexedAddress (i, r) -> Printf.sprintf "IndexedAddress:%s:%s" (sn i) (sb r)
  | RBaseType o -> "BaseType:" ^ sn o
let show_reqs l = if l = [] then "-" else String.concat "," (List.map show_req l)
let show_trace ?(canon_bits = 64) ((reqs, fin) : trace) : string =
  match fin with
  | FComplete (ps, vr, _, _) ->
      Printf.sprintf "ok complete %s %s %s" (if ps = [] then "-" else String.concat "" (List.map (show_piece ~canon_bits) ps))
        (sopt (show_value ~nanc:true ~canon_bits) vr) (show_reqs reqs)
  | FStuck -> "ok waiting " ^ show_reqs reqs
  | FErr e -> Printf.sprintf "err %s %s" (Errnames.name e) (show_reqs reqs)
  | FPanic -> "panic"
  | FOutOfFuel -> "outoffuel"

(* ------------------------------------------------------------------ encodings *)
type encd = { asz : int; f64 : bool; ver : int; be : bool }
let enc_of (e : encd) : enc = { e_asz = n_of_int e.asz; e_fmt64 = e.f64; e_ver = n_of_int e.ver; e_be = e.be }
let enc_toks (e : encd) = Printf.sprintf "%d %d %d %d" e.asz (if e.f64 then 1 else 0) e.ver (if e.be then 1 else 0)
let main_encs =
  List.concat_map (fun asz -> List.concat_map (fun f64 -> List.concat_map (fun ver ->
    List.map (fun be -> { asz; f64; ver; be }) [false; true]) [2; 5]) [false; true]) [1; 2; 4; 8]
let odd_encs = [ { asz = 0; f64 = false; ver = 4; be = false }; { asz = 3; f64 = true; ver = 2; be = true };
                 { asz = 16; f64 = false; ver = 2; be = false }; { asz = 255; f64 = true; ver = 3; be = true } ]

(* little helpers to assemble operands *)
let le_bytes n (z : Z.t) = List.init n (fun i -> Z.to_int (Z.logand (Z.shift_right z (8 * i)) (Z.of_int 255)))
let fixed be n z = let l = le_bytes n z in if be then List.rev l else l
let rec uleb (z : Z.t) = let b = Z.to_int (Z.logand z (Z.of_int 127)) in let r = Z.shift_right z 7 in
  if Z.sign r = 0 then [b] else (b lor 128) :: uleb r
let rec sleb (z : Z.t) = let b = Z.to_int (Z.logand z (Z.of_int 127)) in let r = Z.shift_right z 7 in
  if (Z.sign r = 0 && b land 64 = 0) || (Z.equal r Z.minus_one && b land 64 <> 0) then [b] else (b lor 128) :: sleb r

(* ------------------------------------------------------------------ c07.decode *)
let decode_tails : int list list =
  let p k = p2 k in
  [ []; [0]; [1]; [2]; [3]; [4]; [0x7f]; [0x80]; [0xff]; [0x40]; [0x3f];
    [0x80; 0x01]; [0xff; 0x7f]; [0x80; 0x7f]; [0xff; 0xff; 0x03]; [0x80; 0x80; 0x04]; [0xff; 0xff; 0x7f];
    [1; 2; 3; 4; 5; 6; 7; 8; 9; 10; 11; 12]; [0xf1; 0xf2; 0xf3; 0xf4; 0xf5; 0xf6; 0xf7; 0xf8; 0xf9; 0x7a; 0x0b];
    [1; 2; 3]; [1; 2; 3; 4; 5; 6; 7]; [0xff; 0xff; 0xff; 0xff; 0xff; 0xff; 0xff];
    uleb (Z.pred (p 64)) @ [5; 6]; uleb (p 63) @ [0x7f]; uleb (p 61) @ [1]; uleb (Z.pred (p 61)) @ [1]; uleb (p 32) @ [2]; uleb (Z.pred (p 32)) @ [2];
    uleb (p 16) @ [3]; uleb (Z.pred (p 16)) @ [3; 0x80; 1];
    [0xff; 0xff; 0xff; 0xff; 0xff; 0xff; 0xff; 0xff; 0xff; 0x02]; [0x80; 0x80; 0x80; 0x80; 0x80; 0x80; 0x80; 0x80; 0x80; 0x80; 0x01];
    sleb (Z.neg (p 63)) @ [9]; sleb (Z.pred (p 63)) @ [9]; [0xff; 0xff; 0xff; 0xff; 0xff; 0xff; 0xff; 0xff; 0xff; 0x7e];
    [3; 0xaa; 0xbb; 0xcc; 0xdd]; [3; 0xaa; 0xbb]; [0; 0xaa]; [5; 4; 1; 2; 3; 4; 9]; [5; 4; 1; 2; 3]; [0x81; 0x01; 2; 0xaa; 0xbb; 0xcc];
    [0; 5; 7]; [1; 0x85; 0x01]; [2; 0xff; 0xff; 0xff; 0xff; 0x0f; 1]; [2; 0xff; 0xff; 0xff; 0xff; 0x10]; [3; 1; 2; 3; 4; 5]; [3; 1; 2; 3]; [4; 0]; [0xff; 0];
    [0x90; 0x80; 0x04; 0x7f]; [0xff; 0xff; 0x03; 0x80; 0x7f]; [4; 0x85; 0x02; 1]; [9; 0xff; 0xff; 0xff; 0xff; 0xff; 0xff; 0xff; 0xff; 0xff; 0x01; 7] ]

let pr_dec (o, rest) = show_op o ^ " " ^ string_of_int (List.length rest)

let decode_case emit (e : encd) (l : int list) =
  let bs = bytes_of_ints l in
  both emit (Printf.sprintf "c07.decode %s %s" (enc_toks e) (hex_of_ints l)) (fun dbg ->
    show_res pr_dec (parse_op dbg (enc_of e) bs))

let ops_case emit (e : encd) (l : int list) =
  let bs = bytes_of_ints l in
  both emit (Printf.sprintf "c07.ops %s %s" (enc_toks e) (hex_of_ints l)) (fun dbg ->
    let (ops, t) = operations dbg (enc_of e) bs in
    let body = if ops = [] then "-" else String.concat "," (List.map show_op ops) in
    match t with
    | None -> "ok " ^ body
    | Some (Res.Err x) -> Printf.sprintf "err %s %s" (Errnames.name x) body
    | Some Res.Panic -> "panic"
    | Some _ -> "outoffuel")

(* opcodes that take operands, for the random share *)
let operand_opcodes = [| 0x03; 0x08; 0x09; 0x0a; 0x0b; 0x0c; 0x0d; 0x0e; 0x0f; 0x10; 0x11; 0x15; 0x23; 0x28; 0x2f; 0x70; 0x7f; 0x8f;
  0x90; 0x91; 0x92; 0x93; 0x94; 0x95; 0x98; 0x99; 0x9a; 0x9d; 0x9e; 0xa0; 0xa1; 0xa2; 0xa3; 0xa4; 0xa5; 0xa6; 0xa7; 0xa8; 0xa9;
  0xed; 0xf2; 0xf3; 0xf4; 0xf5; 0xf6; 0xf7; 0xf9; 0xfa; 0xfb; 0xfc; 0xfd |]

let rand_leb r =
  match rand_int r 6 with
  | 0 -> uleb (boundary_z64 r)
  | 1 -> sleb (let z = boundary_z64 r in if Z.numbits z > 63 then Z.sub z (p2 64) else z)
  | 2 -> List.init (rand_int r 12) (fun _ -> 0x80 lor rand_int r 128) @ [rand_int r 128]
  | 3 -> [rand_int r 256]
  | _ -> uleb (Z.of_int (rand_int r 300))
let rand_tail r =
  let parts = 1 + rand_int r 3 in
  List.concat (List.init parts (fun _ ->
    match rand_int r 5 with
    | 0 -> rand_leb r
    | 1 -> rand_bytes r (rand_int r 9)
    | 2 -> let n = rand_int r 6 in (n + rand_int r 2) :: rand_bytes r n
    | 3 -> [rand_int r 5]
    | _ -> rand_leb r @ rand_leb r))

let rand_enc r = if rand_int r 10 = 0 then pick r (Array.of_list odd_encs) else pick r (Array.of_list main_encs)

(* ------------------------------------------------------------------ c07.value *)
let masks = [| Z.of_int 0xff; Z.of_int 0xffff; Z.pred (p2 32); m64 |]
let odd_masks = [| Z.zero; Z.of_int 0xffffff; Z.of_string "0xff00ff00ff00ff00"; Z.pred (p2 63) |]

let f32_specials = List.map Z.of_string [ "0"; "0x80000000"; "0x3f800000"; "0xbf800000"; "0x40000000"; "0x3f000000"; "0x3fc00000";
  "0x7f800000"; "0xff800000"; "0x7fc00000"; "0x7f7fffff"; "0x00000001"; "0x40400000"; "0x4b800000"; "0x4f000000"; "0xcf000000";
  "0x4f800000"; "0x5f000000"; "0x5f800000"; "0x437f8000"; "0xbf666666"; "0x7149f2ca"; "0x4effffff"; "0x42fe0000"; "0xc3000000" ]
let f64_specials = List.map Z.of_string [ "0"; "0x8000000000000000"; "0x3ff0000000000000"; "0xbff0000000000000"; "0x4000000000000000";
  "0x3fe0000000000000"; "0x3ff8000000000000"; "0x7ff0000000000000"; "0xfff0000000000000"; "0x7ff8000000000000"; "0x7fefffffffffffff";
  "0x0000000000000001"; "0x4008000000000000"; "0x41e0000000000000"; "0xc1e0000000000000"; "0x41dfffffffc00000"; "0x41f0000000000000";
  "0x43e0000000000000"; "0xc3e0000000000000"; "0x43f0000000000000"; "0x406ff00000000000"; "0xbfeccccccccccccd"; "0x46293e5939a08cea";
  "0x4340000000000001"; "0x433fffffffffffff"; "0x36a0000000000000"; "0x47efffffe0000000"; "0x47effffff0000000" ]

let int_boundaries w =
  let p = p2 in
  List.sort_uniq Z.compare (List.filter (fun z -> Z.sign z >= 0 && Z.numbits z <= w)
    [ Z.zero; Z.one; Z.of_int 2; Z.of_int 3; Z.of_int 7; Z.pred (p w); Z.sub (p w) (Z.of_int 2); p (w - 1); Z.pred (p (w - 1));
      Z.succ (p (w - 1)); Z.of_int 0x55; Z.of_int 100; Z.sub (p w) (Z.of_int 100); p (w / 2); Z.pred (p (w / 2)) ])
let generic_boundaries =
  List.sort_uniq Z.compare (List.concat_map (fun w -> int_boundaries w) [8; 16; 32; 64]
    @ [ p2 8; p2 16; p2 32; Z.succ (p2 32); Z.add (p2 32) (Z.of_int 2); Z.add (p2 32) (Z.of_int 31); Z.add (p2 16) Z.one; Z.add (p2 8) (Z.of_int 3); p2 63 ])
let values_of_type (t : vtype) : Z.t list =
  match t with
  | TGeneric -> generic_boundaries
  | TF32 -> f32_specials
  | TF64 -> f64_specials
  | _ -> int_boundaries (twidth t)
let few_of_type t = match t with
  | TF32 -> List.map Z.of_string ["0x3fc00000"; "0"; "0xbf800000"] | TF64 -> List.map Z.of_string ["0x3ff8000000000000"; "0"; "0xbff0000000000000"]
  | _ -> let w = twidth t in [Z.of_int 5; Z.zero; Z.pred (p2 w)]

let binops : (string * bool * (fops -> value -> value -> BinNums.coq_N -> value Res.res)) list =
  [ "add", true, vadd; "sub", true, vsub; "mul", true, vmul; "div", true, vdiv; "rem", false, (fun _ -> vrem);
    "and", false, vand; "or", false, vor; "xor", false, vxor;
    "shl", false, (fun _ -> vshl); "shr", false, (fun _ -> vshr); "shra", false, (fun _ -> vshra);
    "eq", false, (fun _ -> veq); "ge", false, (fun _ -> vge); "gt", false, (fun _ -> vgt);
    "le", false, (fun _ -> vle); "lt", false, (fun _ -> vlt); "ne", false, (fun _ -> vne) ]
let unops : (string * (fops -> value -> BinNums.coq_N -> value Res.res)) list =
  [ "abs", (fun _ -> vabs); "neg", (fun _ -> vneg); "not", vnot ]

let value_bin emit (name, nanc, f) (mask : Z.t) (a : value) (b : value) =
  both emit (Printf.sprintf "c07.value %s %s %s %s" name (Z.to_string mask) (show_value a) (show_value b)) (fun _ ->
    show_res (show_value ~nanc) (f the_fops a b (n_of_z mask)))
let value_un emit (name, f) (mask : Z.t) (a : value) =
  both emit (Printf.sprintf "c07.value %s %s %s -" name (Z.to_string mask) (show_value a)) (fun _ ->
    show_res show_value (f the_fops a (n_of_z mask)))
let value_cvt emit name (mask : Z.t) (a : value) (t : vtype) =
  both emit (Printf.sprintf "c07.value %s %s %s %s" name (Z.to_string mask) (show_value a) (tname t)) (fun _ ->
    match name with
    | "convert" -> show_res (show_value ~nanc:true) (convert the_fops a t (n_of_z mask))
    | "reinterpret" -> show_res show_value (reinterpret a t (n_of_z mask))
    | "tou64" -> show_res sn (to_u64 a (n_of_z mask))
    | "bitsize" -> "ok " ^ sn (bit_size t (n_of_z mask))
    | _ -> show_res (show_value ~nanc:true) (from_u64 the_fops t a.vbits))
let value_parse_case emit (be : bool) (t : vtype) (l : int list) =
  both emit (Printf.sprintf "c07.value parse %d %s %s" (if be then 1 else 0) (tname t) (hex_of_ints l)) (fun _ ->
    show_res show_value (value_parse be t (bytes_of_ints l)))

let rand_value r (t : vtype) : value =
  let l = values_of_type t in
  match t with
  | TF32 | TF64 -> mkv t (List.nth l (rand_int r (List.length l)))
  | _ ->
    let w = twidth t in
    let z = match rand_int r 3 with
      | 0 -> List.nth l (rand_int r (List.length l))
      | 1 -> Z.logand (rand_z64 r) (Z.pred (p2 w))
      | _ -> Z.logand (boundary_z64 r) (Z.pred (p2 w)) in
    mkv t z

(* ------------------------------------------------------------------ c07.eval *)
type ecfg = { e : encd; maxit : int option; init : Z.t option; obj : Z.t option; small : bool }
let show_ans (a : answer) =
  Printf.sprintf "%s/%s/%s/%s" (show_value a.a_val) (sn a.a_u64) (hex_of_bytes a.a_bytes) (tname a.a_ty)
let mk_ans v u bytes t : answer = { a_val = v; a_u64 = n_of_z u; a_bytes = bytes_of_ints bytes; a_ty = t }

let eval_case emit (c : ecfg) (prog : int list) (answers : answer list) =
  let cfg : cfg = { c_enc = enc_of c.e; c_obj = Option.map n_of_z c.obj; c_max = Option.map n_of_int c.maxit;
                    c_init = Option.map n_of_z c.init;
                    c_cap_stack = (if c.small then Some (nat_of_int 3) else None);
                    c_cap_expr = (if c.small then Some (nat_of_int 1) else None);
                    c_cap_res = (if c.small then Some (nat_of_int 2) else None); c_canon = None } in
  let fuel = nat_of_int (match c.maxit with Some m -> min (m + 2) 5000 | None -> 4000) in
  let case = Printf.sprintf "c07.eval %s %s %s %s %s %s%s" (enc_toks c.e)
      (sopt string_of_int c.maxit) (sopt Z.to_string c.init) (sopt Z.to_string c.obj) (if c.small then "s" else "h")
      (hex_of_ints prog) (String.concat "" (List.map (fun a -> " " ^ show_ans a) answers)) in
  let bs = bytes_of_ints prog in
  both emit case (fun dbg -> show_trace (run the_fops fuel dbg cfg bs answers))

let i16 be v = fixed be 2 (Z.of_int (v land 0xffff))

(* the alphabet of DESIGN §5 C07 for the exhaustive enumeration, as a function of the encoding *)
let alphabet (e : encd) : int list array =
  let m = p2 (8 * e.asz) in
  let cst z = (match e.asz with 1 -> [0x08] | 2 -> [0x0a] | 4 -> [0x0c] | _ -> [0x0e]) @ fixed e.be e.asz z in
  Array.of_list ([
    [0x12]; [0x13]; [0x14]; [0x16]; [0x17]; [0x15; 2];                               (* dup drop over swap rot pick2 *)
    [0x19]; [0x1a]; [0x1b]; [0x1c]; [0x1d]; [0x1e]; [0x1f]; [0x20]; [0x21]; [0x22];  (* abs and div minus mod mul neg not or plus *)
    [0x23; 1]; [0x24]; [0x25]; [0x26]; [0x27];                                       (* plus_uconst shl shr shra xor *)
    [0x29]; [0x2a]; [0x2b]; [0x2c]; [0x2d]; [0x2e];                                  (* eq ge gt le lt ne *)
    [0x96]; [0x9f];                                                                  (* nop stack_value *)
    [0x30]; [0x31]; [0x32]; [0x09; 0xff];                                            (* lit0 lit1 lit2 const1s -1 *)
    cst (Z.pred m); cst (Z.shift_right m 1);                                         (* M-1, M/2 *)
    0x2f :: i16 e.be 1; 0x2f :: i16 e.be (-3); 0x2f :: i16 e.be (-4);                (* skip +1, self loop, back into the previous op *)
    0x28 :: i16 e.be 1; 0x28 :: i16 e.be (-4); 0x28 :: i16 e.be 2 ])                 (* bra +1, back, +2 *)

(* random structured programs *)
let rand_small_z r = match rand_int r 6 with
  | 0 -> Z.zero | 1 -> Z.one | 2 -> Z.of_int (rand_int r 70) | 3 -> Z.minus_one | 4 -> Z.of_int (rand_int r 300 - 150)
  | _ -> let z = boundary_z64 r in if Z.numbits z > 63 then Z.sub z (p2 64) else z
let rand_u r = match rand_int r 4 with 0 -> Z.of_int (rand_int r 5) | 1 -> Z.of_int (rand_int r 70) | 2 -> Z.of_int (rand_int r 70000) | _ -> boundary_z64 r

let rec rand_op r (e : encd) (depth : int) : int list =
  let be = e.be in
  match rand_int r 46 with
  | 0 -> 0x03 :: fixed be e.asz (rand_u r)
  | 1 -> [0x06] | 2 -> [0x08; rand_int r 256] | 3 -> [0x09; rand_int r 256]
  | 4 -> 0x0a :: fixed be 2 (rand_u r) | 5 -> 0x0d :: fixed be 4 (rand_u r) | 6 -> 0x0e :: fixed be 8 (rand_u r)
  | 7 -> 0x10 :: uleb (rand_u r) | 8 -> 0x11 :: sleb (rand_small_z r)
  | 9 -> [pick r [| 0x12; 0x13; 0x14; 0x16; 0x17 |]] | 10 -> [0x15; rand_int r 4]
  | 11 | 12 | 13 -> [0x19 + rand_int r 10]                (* abs .. plus *)
  | 14 -> 0x23 :: uleb (rand_u r)
  | 15 | 16 -> [0x24 + rand_int r 4]                      (* shl shr shra xor *)
  | 17 | 18 -> [0x29 + rand_int r 6]                      (* compare *)
  | 19 -> 0x28 :: i16 be (rand_int r 9 - 4) | 20 -> 0x2f :: i16 be (rand_int r 9 - 4)
  | 21 | 22 | 23 -> [0x30 + rand_int r 32]
  | 24 -> [0x50 + rand_int r 32]
  | 25 -> (0x70 + rand_int r 32) :: sleb (rand_small_z r)
  | 26 -> 0x90 :: uleb (Z.of_int (rand_int r 70000)) | 27 -> 0x91 :: sleb (rand_small_z r)
  | 28 -> 0x92 :: (uleb (Z.of_int (rand_int r 300)) @ sleb (rand_small_z r))
  | 29 -> 0x93 :: uleb (Z.of_int (rand_int r 20))
  | 30 -> [pick r [| 0x94; 0x95 |]; pick r [| 0; 1; 2; 4; 8; 9 |]]
  | 31 -> [pick r [| 0x96; 0x97; 0x9c; 0x9b; 0xe0; 0x18; 0xf0 |]]
  | 32 -> (match rand_int r 3 with 0 -> 0x98 :: fixed be 2 (rand_u r) | 1 -> 0x99 :: fixed be 4 (rand_u r)
           | _ -> 0x9a :: fixed be (if e.f64 then 8 else 4) (rand_u r))
  | 33 -> 0x9d :: (uleb (Z.of_int (rand_int r 70)) @ uleb (Z.of_int (rand_int r 9)))
  | 34 -> let n = rand_int r 5 in 0x9e :: n :: rand_bytes r n
  | 35 -> [0x9f]
  | 36 -> pick r [| 0xa0; 0xf2 |] :: (fixed be (if e.ver = 2 then e.asz else if e.f64 then 8 else 4) (rand_u r) @ sleb (rand_small_z r))
  | 37 -> pick r [| 0xa1; 0xa2; 0xfb; 0xfc |] :: uleb (rand_u r)
  | 38 -> let body = if depth > 0 then rand_prog r e (depth - 1) (rand_int r 3) else [] in
          pick r [| 0xa3; 0xf3 |] :: (uleb (Z.of_int (List.length body)) @ body)
  | 39 -> let n = pick r [| 0; 1; 2; 4; 8; 3 |] in pick r [| 0xa4; 0xf4 |] :: (uleb (Z.of_int (rand_int r 200)) @ (n :: rand_bytes r n))
  | 40 -> pick r [| 0xa5; 0xf5 |] :: (uleb (Z.of_int (rand_int r 40)) @ uleb (Z.of_int (rand_int r 200)))
  | 41 -> pick r [| 0xa6; 0xf6; 0xa7 |] :: pick r [| 1; 2; 4; 8 |] :: uleb (Z.of_int (rand_int r 200))
  | 42 -> pick r [| 0xa8; 0xf7; 0xa9; 0xf9 |] :: uleb (Z.of_int (rand_int r 200))
  | 43 -> 0xed :: rand_int r 4 :: uleb (Z.of_int (rand_int r 1000))
  | 44 -> 0xfa :: fixed be 4 (rand_u r)
  | _ -> [rand_int r 256]
and rand_prog r e depth len = List.concat (List.init len (fun _ -> rand_op r e depth))

let rand_answer r (e : encd) (depth : int) : answer =
  let t = pick r all_types in
  let v = rand_value r t in
  let u = match rand_int r 4 with 0 -> Z.of_int (rand_int r 100) | 1 -> boundary_z64 r | 2 -> rand_z64 r | _ -> Z.add (p2 (8 * (e.asz land 7))) (Z.of_int (rand_int r 64)) in
  let bytes = match rand_int r 4 with 0 -> [] | _ -> rand_prog r e (max 0 (depth - 1)) (1 + rand_int r 3) in
  mk_ans v u bytes (pick r all_types)

(* ------------------------------------------------------------------ registration *)
let () =
  register "c07.decode" ~doc:"Operation::parse: every opcode byte x boundary operand tails x encodings (exhaustive over the opcode byte), then random operand bytes"
    (fun ~seed ~n emit ->
      let few_tails = [ []; [1; 2; 3; 4; 5; 6; 7; 8; 9; 10; 11; 12]; [3; 0xaa; 0xbb; 0xcc; 0xdd]; [0x80; 0x01]; [0xff; 0xff; 0xff; 0xff; 0xff; 0xff; 0xff; 0xff; 0xff; 0x02]; [0] ] in
      let has_operands opc = Array.exists (fun x -> x = opc) operand_opcodes || (opc >= 0x70 && opc <= 0x8f) in
      (* opcodes with operands: every tail x the full encoding product; the others (no operand / invalid): a few tails x 4 + 4 encodings *)
      for opc = 0 to 255 do
        if has_operands opc then List.iter (fun e -> List.iter (fun t -> decode_case emit e (opc :: t)) decode_tails) main_encs
        else List.iter (fun e -> if e.ver = 5 && (e.f64 = e.be) then List.iter (fun t -> decode_case emit e (opc :: t)) few_tails) main_encs;
        List.iter (fun e -> List.iter (fun t -> decode_case emit e (opc :: t)) few_tails) odd_encs
      done;
      decode_case emit (List.hd main_encs) [];
      let r = mk_rng seed in
      for _ = 1 to n do
        let e = rand_enc r in
        let opc = if rand_int r 4 = 0 then rand_int r 256 else pick r operand_opcodes in
        decode_case emit e (opc :: rand_tail r)
      done);
  register "c07.ops" ~doc:"Expression::operations (OperationIter): whole expressions, stop after the first error"
    (fun ~seed ~n emit ->
      let r = mk_rng seed in
      List.iter (fun e -> ops_case emit e []; for opc = 0 to 255 do ops_case emit e [opc; 0x30; 0x9f] done) [List.hd main_encs; List.nth main_encs 31];
      for _ = 1 to n do
        let e = rand_enc r in
        let prog = rand_prog r e 2 (rand_int r 8) in
        let prog = if rand_int r 6 = 0 then List.filteri (fun i _ -> i < rand_int r (List.length prog + 1)) prog else prog in
        ops_case emit e prog
      done);
  register "c07.value" ~doc:"Value arithmetic: every operation x type pair x boundary operands x address masks; shift counts 0..70; convert/reinterpret/parse"
    (fun ~seed ~n emit ->
      let all_masks = Array.append masks odd_masks in
      (* binary operations, matching types: full boundary grid *)
      List.iter (fun ((name, _, _) as op) ->
        let is_shift = (name = "shl" || name = "shr" || name = "shra") in
        Array.iter (fun mask ->
          Array.iter (fun t ->
            let vs = values_of_type t in
            List.iter (fun a -> List.iter (fun b -> value_bin emit op mask (mkv t a) (mkv t b)) vs) vs;
            (* mismatched types: one representative pair, plus zero divisors *)
            Array.iter (fun t2 -> if t2 <> t then begin
              List.iter (fun b -> value_bin emit op mask (mkv t (List.hd (few_of_type t))) (mkv t2 b)) (few_of_type t2) end) all_types;
            (* shift counts 0..70 in every integer type that can hold them *)
            if is_shift then
              Array.iter (fun t2 ->
                for cnt = 0 to 70 do
                  if cnt < (1 lsl (min 20 (twidth t2))) then
                    List.iter (fun a -> value_bin emit op mask (mkv t a) (mkv t2 (Z.of_int cnt)))
                      (match t with TF32 | TF64 -> [Z.zero] | _ -> [Z.of_int 5; Z.succ (p2 (twidth t - 1))])
                done;
                List.iter (fun c -> value_bin emit op mask (mkv t (Z.of_int 1)) (mkv t2 c)) (values_of_type t2)) int_types
          ) all_types) (if is_shift || name = "div" || name = "rem" then Array.append masks [| Z.zero; Z.of_int 0xffffff |] else masks)) binops;
      List.iter (fun op -> Array.iter (fun mask -> Array.iter (fun t ->
        List.iter (fun a -> value_un emit op mask (mkv t a)) (values_of_type t)) all_types) all_masks) unops;
      Array.iter (fun mask -> Array.iter (fun t -> List.iter (fun a ->
        Array.iter (fun t2 ->
          value_cvt emit "convert" mask (mkv t a) t2; value_cvt emit "reinterpret" mask (mkv t a) t2) all_types;
        value_cvt emit "tou64" mask (mkv t a) t;
        value_cvt emit "fromu64" mask (mkv TGeneric a) t) (values_of_type t);
        value_cvt emit "bitsize" mask (mkv t Z.zero) t) all_types) all_masks;
      (* from_u64 to floats on rounding boundaries *)
      List.iter (fun z -> value_cvt emit "fromu64" m64 (mkv TGeneric z) TF32; value_cvt emit "fromu64" m64 (mkv TGeneric z) TF64)
        (List.concat_map (fun k -> List.filter (fun z -> Z.sign z >= 0 && Z.numbits z <= 64)
          [ Z.pred (p2 k); p2 k; Z.succ (p2 k); Z.add (p2 k) (p2 (max 0 (k - 24))); Z.add (p2 k) (Z.succ (p2 (max 0 (k - 24))));
            Z.add (p2 k) (p2 (max 0 (k - 25))); Z.add (p2 k) (Z.succ (p2 (max 0 (k - 25)))); Z.add (p2 k) (Z.mul (Z.of_int 3) (p2 (max 0 (k - 25))));
            Z.add (p2 k) (p2 (max 0 (k - 53))); Z.add (p2 k) (p2 (max 0 (k - 54))); Z.add (p2 k) (Z.mul (Z.of_int 3) (p2 (max 0 (k - 54)))) ])
          (List.init 65 (fun k -> k)));
      Array.iter (fun t -> List.iter (fun be -> for len = 0 to 9 do
        value_parse_case emit be t (List.init len (fun i -> (0x81 + 0x23 * i) land 255));
        value_parse_case emit be t (List.init len (fun _ -> 0xff)) done) [false; true]) all_types;
      let r = mk_rng seed in
      for _ = 1 to n do
        let mask = if rand_int r 5 = 0 then pick r odd_masks else pick r masks in
        let t = pick r all_types in
        let t2 = if rand_int r 4 = 0 then pick r all_types else t in
        match rand_int r 10 with
        | 0 -> value_un emit (List.nth unops (rand_int r 3)) mask (rand_value r t)
        | 1 -> value_cvt emit (pick r [| "convert"; "reinterpret" |]) mask (rand_value r t) (pick r all_types)
        | 2 -> value_bin emit (List.nth binops (8 + rand_int r 3)) mask (rand_value r (pick r int_types)) (rand_value r (pick r int_types))
        | _ -> value_bin emit (List.nth binops (rand_int r 17)) mask (rand_value r t) (rand_value r t2)
      done);
  register "c07.eval" ~doc:"Evaluation: exhaustive programs over the C07 alphabet (length <= 3; n >= 1000000: <= 4), iteration-limit sweeps, random programs with requests/answers, pieces, calls, small fixed storage"
    (fun ~seed ~n emit ->
      let thorough = n >= 1000000 in
      let base asz be = { e = { asz; f64 = false; ver = 4; be }; maxit = Some 14; init = None; obj = None; small = false } in
      (* exhaustive programs after a prelude that fills the stack (so that most of them run to the end):
         quick: empty prelude length <= 2, two 3-deep preludes length <= 3; thorough: one level deeper *)
      List.iter (fun asz ->
        let c = base asz (asz = 2) in
        let al = alphabet c.e in
        let k = Array.length al in
        let m = p2 (8 * asz) in
        let cst z = (match asz with 1 -> [0x08] | 2 -> [0x0a] | 4 -> [0x0c] | _ -> [0x0e]) @ fixed c.e.be asz z in
        let preludes = [ [], (if thorough then 3 else 2);
                         [0x33] @ cst (Z.pred m) @ [0x31], (if thorough && asz = 4 then 4 else 3);
                         cst (Z.succ (Z.shift_right m 1)) @ [0x32; 0x09; 0xfe], (if thorough then 3 else 2) ] in
        List.iter (fun (pre, maxlen) ->
          eval_case emit c pre [];
          let rec go len prefix =
            if len > 0 then
              for i = 0 to k - 1 do
                let p = prefix @ al.(i) in
                eval_case emit c p [];
                go (len - 1) p
              done in
          go maxlen pre) preludes) [1; 2; 4; 8];
      (* with an initial value / object address / small storage: length <= 2 *)
      List.iter (fun asz ->
        List.iter (fun c ->
          let al = alphabet c.e in
          Array.iter (fun a -> eval_case emit c a [];
            Array.iter (fun b -> eval_case emit c (a @ b) []) al) al)
          [ { (base asz false) with init = Some (Z.add (p2 (8 * asz - 1)) (Z.of_int 3)) };
            { (base asz true) with init = Some (Z.of_int 5); small = true } ]) [1; 2; 4; 8];
      (* Evaluation::new for every address size (addr_mask shift) *)
      for asz = 0 to 255 do
        eval_case emit { (base asz false) with init = Some (Z.pred (p2 64)) } [0x31; 0x22] []
      done;
      let r = mk_rng seed in
      (* iteration limit sweep on looping and straight programs *)
      for _ = 1 to (n / 40) + 5 do
        let e = pick r (Array.of_list main_encs) in
        let prog = rand_prog r e 1 (1 + rand_int r 6) in
        let answers = List.init (rand_int r 6) (fun _ -> rand_answer r e 1) in
        for lim = 0 to 9 do
          eval_case emit { e; maxit = Some lim; init = (if rand_bool r then Some (rand_u r) else None); obj = None; small = false } prog answers
        done
      done;
      let has_branch_byte l = List.exists (fun b -> b = 0x28 || b = 0x2f) l in
      for _ = 1 to n / 20 + 20 do
        let e = pick r (Array.of_list main_encs) in
        let prog = rand_prog r e 1 (1 + rand_int r 6) in
        let answers = List.init (rand_int r 4) (fun _ -> rand_answer r e 1) in
        if not (has_branch_byte prog || List.exists (fun (a : answer) -> has_branch_byte (List.map int_of_byte a.a_bytes)) answers) then
          List.iter (fun lim -> eval_case emit { e; maxit = Some lim; init = None; obj = None; small = false } prog answers)
            [4294967295; 4294967294; 65536]
      done;
      for _ = 1 to n / 4 do
        let e = pick r (Array.of_list main_encs) in
        let prog = rand_prog r e 2 (1 + rand_int r 8) in
        let answers = List.init (rand_int r 6) (fun _ -> rand_answer r e 2) in
        if not (has_branch_byte prog || List.exists (fun (a : answer) -> has_branch_byte (List.map int_of_byte a.a_bytes)) answers) then
          eval_case emit { e; maxit = None; init = (if rand_bool r then Some (rand_u r) else None);
                           obj = (if rand_bool r then Some (rand_u r) else None); small = rand_int r 6 = 0 } prog answers
      done;
      for _ = 1 to n do
        let e = if rand_int r 12 = 0 then pick r [| List.nth odd_encs 0; List.nth odd_encs 1 |] else pick r (Array.of_list main_encs) in
        let prog = rand_prog r e 2 (1 + rand_int r 8) in
        let answers = List.init (rand_int r 8) (fun _ -> rand_answer r e 2) in
        let c = { e; maxit = Some (rand_int r 40);
                  init = (if rand_int r 3 = 0 then Some (rand_u r) else None);
                  obj = (if rand_int r 3 = 0 then Some (rand_u r) else None);
                  small = rand_int r 5 = 0 } in
        eval_case emit c prog answers
      done)

(* ------------------------------------------------------------------ c07.spec: gimli against the DWARF stack
   machine of Spec/StackSpec.v (value algebra on canonical values).  `n` cases are inside the domain of
   theorem value_ops, `k` cases are the known class of shift_count_refuted (generic shift count with bits
   beyond the address size). *)
let spec_bin (sz : int) (name : string) : (value -> value -> value Res.res) =
  let z = n_of_int sz in
  match name with
  | "add" -> StackSpec.sp_add z the_fops | "sub" -> StackSpec.sp_sub z the_fops | "mul" -> StackSpec.sp_mul z the_fops
  | "div" -> StackSpec.sp_div z the_fops | "rem" -> StackSpec.sp_rem z
  | "and" -> StackSpec.sp_and | "or" -> StackSpec.sp_or | "xor" -> StackSpec.sp_xor
  | "shl" -> StackSpec.sp_shl z | "shr" -> StackSpec.sp_shr z | "shra" -> StackSpec.sp_shra z
  | "eq" -> StackSpec.sp_eq z | "ge" -> StackSpec.sp_ge z | "gt" -> StackSpec.sp_gt z
  | "le" -> StackSpec.sp_le z | "lt" -> StackSpec.sp_lt z | "ne" -> StackSpec.sp_ne z
  | _ -> failwith "spec_bin"
let is_shift name = (name = "shl" || name = "shr" || name = "shra")
let spec_value_bin emit (name, nanc, _) (sz : int) (a : value) (b : value) =
  let cls = if is_shift name && b.vty = TGeneric && Z.geq (z_of_n b.vbits) (p2 (8 * sz)) then "k" else "n" in
  let zs = n_of_int sz in
  both emit (Printf.sprintf "c07.spec v %s %s %d %s %s" cls name sz (show_value a) (show_value b)) (fun _ ->
    show_res (show_value ~nanc) (spec_bin sz name (StackSpec.canon zs a) (StackSpec.canon zs b)))
let spec_value_un emit (name : string) (sz : int) (a : value) =
  let zs = n_of_int sz in
  both emit (Printf.sprintf "c07.spec v n %s %d %s -" name sz (show_value a)) (fun _ ->
    let ca = StackSpec.canon zs a in
    show_res show_value (match name with
      | "abs" -> StackSpec.sp_abs zs ca | "neg" -> StackSpec.sp_neg zs ca | _ -> StackSpec.sp_not zs ca))
let spec_value_cvt emit (name : string) (sz : int) (a : value) (t : vtype) =
  let zs = n_of_int sz in
  both emit (Printf.sprintf "c07.spec v n %s %d %s %s" name sz (show_value a) (tname t)) (fun _ ->
    let ca = StackSpec.canon zs a in
    if name = "convert" then show_res (show_value ~nanc:true) (StackSpec.sp_convert zs the_fops ca t)
    else show_res show_value (StackSpec.sp_reinterpret zs ca t))

(* a program and the same program with every generic shift count explicitly reduced (`const M-1; and`,
   the identity on canonical generic values): the DWARF meaning of P is the model's result on P' *)
let spec_eval_witness emit (e : encd) (p : int list) (p' : int list) =
  let c = { e; maxit = Some 40; init = None; obj = None; small = false } in
  let cfg : cfg = { c_enc = enc_of c.e; c_obj = None; c_max = Some (n_of_int 40); c_init = None;
                    c_cap_stack = None; c_cap_expr = None; c_cap_res = None; c_canon = None } in
  let case = Printf.sprintf "c07.spec e k %s 40 - - h %s" (enc_toks e) (hex_of_ints p) in
  both emit case (fun dbg -> show_trace ~canon_bits:(8 * e.asz) (run the_fops (nat_of_int 42) dbg cfg (bytes_of_ints p') []))

(* evaluator level: gimli (generic values printed modulo the address size) against the NORMALISED machine
   (model with c_canon = Some (8*asz): every generic value reduced when pushed). *)
let spec_eval_case emit (c : ecfg) (prog : int list) (answers : answer list) =
  if c.e.asz >= 1 && c.e.asz <= 8 then begin
    let bits = 8 * c.e.asz in
    let cfg : cfg = { c_enc = enc_of c.e; c_obj = Option.map n_of_z c.obj; c_max = Option.map n_of_int c.maxit;
                      c_init = Option.map n_of_z c.init;
                      c_cap_stack = (if c.small then Some (nat_of_int 3) else None);
                      c_cap_expr = (if c.small then Some (nat_of_int 1) else None);
                      c_cap_res = (if c.small then Some (nat_of_int 2) else None);
                      c_canon = Some (n_of_int bits) } in
    let fuel = nat_of_int (match c.maxit with Some m -> min (m + 2) 5000 | None -> 4000) in
    let bs = bytes_of_ints prog in
    let case = Printf.sprintf "c07.spec e n %s %s %s %s %s %s%s" (enc_toks c.e)
        (sopt string_of_int c.maxit) (sopt Z.to_string c.init) (sopt Z.to_string c.obj) (if c.small then "s" else "h")
        (hex_of_ints prog) (String.concat "" (List.map (fun a -> " " ^ show_ans a) answers)) in
    both emit case (fun dbg -> show_trace ~canon_bits:bits (run the_fops fuel dbg cfg bs answers))
  end

let () =
  register "c07.spec" ~doc:"gimli's Value operations (results reduced modulo the address size) against the specification algebra of Spec/StackSpec.v; class k = generic shift counts beyond the address size (repaired in gimli 0858756)"
    (fun ~seed ~n emit ->
      let thorough = n >= 400000 in
      let spec_types = if thorough then all_types else [| TGeneric; TI8; TU16; TI32; TU64; TF32; TF64 |] in
      List.iter (fun sz ->
        List.iter (fun ((name, _, _) as op) ->
          Array.iter (fun t ->
            let vs = values_of_type t in
            let vs = if thorough || t = TGeneric then vs else List.filteri (fun i _ -> i mod 2 = 0 || i < 4) vs in
            List.iter (fun a -> List.iter (fun b -> spec_value_bin emit op sz (mkv t a) (mkv t b)) vs) vs;
            Array.iter (fun t2 -> if t2 <> t then
              List.iter (fun b -> spec_value_bin emit op sz (mkv t (List.hd (few_of_type t))) (mkv t2 b)) (few_of_type t2)) all_types;
            if is_shift name then
              Array.iter (fun t2 ->
                for cnt = 0 to 70 do
                  if cnt < (1 lsl (min 20 (twidth t2))) then
                    List.iter (fun a -> spec_value_bin emit op sz (mkv t a) (mkv t2 (Z.of_int cnt)))
                      (match t with TF32 | TF64 -> [Z.zero] | _ -> [Z.of_int 5; Z.succ (p2 (twidth t - 1))])
                done) (if thorough then int_types else [| TGeneric; TI8; TU64 |])) spec_types) binops;
        Array.iter (fun t -> List.iter (fun a ->
          List.iter (fun nm -> spec_value_un emit nm sz (mkv t a)) ["abs"; "neg"; "not"];
          Array.iter (fun t2 -> spec_value_cvt emit "convert" sz (mkv t a) t2; spec_value_cvt emit "reinterpret" sz (mkv t a) t2) all_types)
          (values_of_type t)) spec_types) [1; 2; 4; 8];
      (* evaluator-level witnesses of the known class *)
      List.iter (fun asz ->
        let e = { asz; f64 = false; ver = 4; be = false } in
        let m = p2 (8 * asz) in
        let cst z = (match asz with 1 -> [0x08] | 2 -> [0x0a] | _ -> [0x0c]) @ fixed false asz z in
        let norm = cst (Z.pred m) @ [0x1a] in
        List.iter (fun sh ->
          (* 1 << ((M/2+1) << 1)   and   0x40 >> (~(M-2)) *)
          spec_eval_witness emit e ([0x31] @ cst (Z.succ (Z.shift_right m 1)) @ [0x31; 0x24; sh])
                                   ([0x31] @ cst (Z.succ (Z.shift_right m 1)) @ [0x31; 0x24] @ norm @ [sh]);
          spec_eval_witness emit e ([0x08; 0x40] @ cst (Z.sub m (Z.of_int 2)) @ [0x20; sh])
                                   ([0x08; 0x40] @ cst (Z.sub m (Z.of_int 2)) @ [0x20] @ norm @ [sh]))
          [0x24; 0x25; 0x26]) [1; 2; 4];
      (* exhaustive short programs over the alphabet after a dirty prelude (values beyond the address size on the stack) *)
      List.iter (fun asz ->
        if asz < 8 then begin
          let e = { asz; f64 = false; ver = 4; be = (asz = 2) } in
          let c = { e; maxit = Some 14; init = Some (Z.add (p2 (8 * asz)) (Z.of_int 3)); obj = None; small = false } in
          let al = alphabet e in
          let m = p2 (8 * asz) in
          let pre = [0x0e] @ fixed e.be 8 (Z.add (Z.mul m (Z.of_int 5)) (Z.of_int 2)) @ [0x31; 0x1f] in   (* const8u 5M+2; lit1; neg *)
          Array.iter (fun a -> spec_eval_case emit c (pre @ a) [];
            Array.iter (fun b -> spec_eval_case emit c (pre @ a @ b) []) al) al
        end) [1; 2; 4];
      let r = mk_rng (seed + 77) in
      for _ = 1 to n do
        let e = pick r (Array.of_list main_encs) in
        let prog = rand_prog r e 2 (1 + rand_int r 8) in
        let answers = List.init (rand_int r 8) (fun _ -> rand_answer r e 2) in
        let c = { e; maxit = Some (rand_int r 40);
                  init = (if rand_int r 3 = 0 then Some (rand_u r) else None);
                  obj = (if rand_int r 3 = 0 then Some (rand_u r) else None);
                  small = rand_int r 5 = 0 } in
        spec_eval_case emit c prog answers
      done;
      let r = mk_rng seed in
      for _ = 1 to n do
        let sz = pick r [| 1; 2; 4; 8 |] in
        let t = pick r all_types in
        let t2 = if rand_int r 4 = 0 then pick r all_types else t in
        match rand_int r 10 with
        | 0 -> spec_value_un emit (pick r [| "abs"; "neg"; "not" |]) sz (rand_value r t)
        | 1 -> spec_value_cvt emit (pick r [| "convert"; "reinterpret" |]) sz (rand_value r t) (pick r all_types)
        | 2 -> spec_value_bin emit (List.nth binops (8 + rand_int r 3)) sz (rand_value r (pick r int_types)) (rand_value r (pick r int_types))
        | _ -> spec_value_bin emit (List.nth binops (rand_int r 17)) sz (rand_value r t) (rand_value r t2)
      done)

(* ------------------------------------------------------------------ c07.specrun: gimli (generic values printed
   modulo the address size) against the EXTRACTED SPECIFICATION MACHINE Spec/StackMachine.v spec_run — the stack
   machine over canonical values through the sp_* algebra; theorem eval_refines proves the model's canonical trace
   equal to it for every input of this domain (address size 1/2/4/8, Rust-valued configuration and answers). *)
let specrun_case emit (c : ecfg) (prog : int list) (answers : answer list) =
  if c.e.asz = 1 || c.e.asz = 2 || c.e.asz = 4 || c.e.asz = 8 then begin
    let cfg : cfg = { c_enc = enc_of c.e; c_obj = Option.map n_of_z c.obj; c_max = Option.map n_of_int c.maxit;
                      c_init = Option.map n_of_z c.init;
                      c_cap_stack = (if c.small then Some (nat_of_int 3) else None);
                      c_cap_expr = (if c.small then Some (nat_of_int 1) else None);
                      c_cap_res = (if c.small then Some (nat_of_int 2) else None);
                      c_canon = None } in
    let fuel = nat_of_int (match c.maxit with Some m -> min (m + 2) 5000 | None -> 4000) in
    let bs = bytes_of_ints prog in
    let case = Printf.sprintf "c07.specrun %s %s %s %s %s %s%s" (enc_toks c.e)
        (sopt string_of_int c.maxit) (sopt Z.to_string c.init) (sopt Z.to_string c.obj) (if c.small then "s" else "h")
        (hex_of_ints prog) (String.concat "" (List.map (fun a -> " " ^ show_ans a) answers)) in
    both emit case (fun _ -> show_trace (StackMachine.spec_run (n_of_int c.e.asz) the_fops fuel cfg bs answers))
  end

let () =
  register "c07.specrun" ~doc:"whole evaluations: gimli (canonical reading) against the extracted specification stack machine (Spec/StackMachine.v spec_run, theorem eval_refines): exhaustive short programs over the C07 alphabet after clean and dirty preludes, address sizes 1/2/4/8; random programs with loops, branches, requests, calls, typed values, pieces"
    (fun ~seed ~n emit ->
      List.iter (fun asz ->
        let e = { asz; f64 = false; ver = 4; be = (asz = 2) } in
        let al = alphabet e in
        let m = p2 (8 * asz) in
        let cst z = (match asz with 1 -> [0x08] | 2 -> [0x0a] | 4 -> [0x0c] | _ -> [0x0e]) @ fixed e.be asz z in
        (* clean prelude (three values incl. M-1) and dirty prelude (containers beyond the address size: 5M+2, -1) *)
        let clean = { e; maxit = Some 14; init = None; obj = None; small = false }, [0x33] @ cst (Z.pred m) @ [0x31] in
        let dirty = { e; maxit = Some 14; init = Some (Z.logand (Z.add m (Z.of_int 3)) m64); obj = None; small = false },
                    (if asz < 8 then [0x0e] @ fixed e.be 8 (Z.add (Z.mul m (Z.of_int 5)) (Z.of_int 2)) @ [0x31; 0x1f]
                     else cst (Z.pred m) @ [0x31; 0x1f]) in
        List.iter (fun (c, pre) ->
          specrun_case emit c pre [];
          Array.iter (fun a -> specrun_case emit c (pre @ a) [];
            Array.iter (fun b -> specrun_case emit c (pre @ a @ b) []) al) al) [clean; dirty];
        (* a container that is a non-zero multiple of M (canonically 0) on top: bra / compare / div-by-zero must see 0 *)
        if asz < 8 then begin
          let zc = { e; maxit = Some 14; init = None; obj = None; small = false } in
          let zpre = [0x31; 0x0e] @ fixed e.be 8 (Z.mul m (Z.of_int 5)) in
          specrun_case emit zc zpre [];
          Array.iter (fun a -> specrun_case emit zc (zpre @ a) [];
            Array.iter (fun b -> specrun_case emit zc (zpre @ a @ b) []) al) al
        end;
        (* every letter alone and every pair on the empty stack / with an initial value and small storage *)
        let c0 = { e; maxit = Some 14; init = Some (Z.of_int 5); obj = None; small = true } in
        Array.iter (fun a -> specrun_case emit c0 a [];
          Array.iter (fun b -> specrun_case emit c0 (a @ b) []) al) al) [1; 2; 4; 8];
      let r = mk_rng (seed + 707) in
      let encs = Array.of_list (List.filter (fun e -> e.asz = 1 || e.asz = 2 || e.asz = 4 || e.asz = 8) main_encs) in
      for _ = 1 to n do
        let e = pick r encs in
        let prog = rand_prog r e 2 (1 + rand_int r 8) in
        let answers = List.init (rand_int r 8) (fun _ -> rand_answer r e 2) in
        let c = { e; maxit = (if rand_int r 8 = 0 then None else Some (rand_int r 40));
                  init = (if rand_int r 3 = 0 then Some (rand_u r) else None);
                  obj = (if rand_int r 3 = 0 then Some (rand_u r) else None);
                  small = rand_int r 5 = 0 } in
        let has_branch_byte l = List.exists (fun b -> b = 0x28 || b = 0x2f) l in
        if c.maxit <> None || not (has_branch_byte prog || List.exists (fun (a : answer) -> has_branch_byte (List.map int_of_byte a.a_bytes)) answers) then
          specrun_case emit c prog answers
      done)
let init () = ()
