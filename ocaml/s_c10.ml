(* s_c10.ml — streams for C10 (reader kinds). Model side: extracted Cursor (pool machine over the
   EndianReader model, which is also the cursor specification all kinds are compared with).
   Case:  c10.<stream> <kindmask> <be> <bufhex> (<k> <i> <arg>)*      — opcodes: see harness/src/c10.rs *)
open Conv
open Streams

let base_z = Z.of_int 0x10000          (* address of the model's buffer; ids are printed relative to it *)
let base_n = n_of_z base_z
let two64 = Z.shift_left Z.one 64
let all_kinds = 63

type op = int * int * Z.t

let pop_of ((k, i, arg) : op) : Cursor.pop option =
  let ni = nat_of_int i in
  let c x = Some (Cursor.POp (ni, x)) in
  let small () = nat_of_int (Z.to_int arg) in
  match k with
  | 0 -> c (Cursor.CReadSlice (n_of_z arg))
  | 1 -> c (Cursor.CReadUn (small ()))
  | 2 -> c (Cursor.CReadIn (small ()))
  | 3 -> c (Cursor.CReadUint (small ()))
  | 4 -> c (Cursor.CSkip (n_of_z arg))
  | 5 -> c (Cursor.CSplit (n_of_z arg))
  | 6 -> c (Cursor.CTruncate (n_of_z arg))
  | 7 -> c Cursor.CEmpty
  | 8 -> c (Cursor.CFind (byte_of_int (Z.to_int arg)))
  | 9 -> c Cursor.CLen
  | 10 -> c Cursor.CIsEmpty
  | 11 -> c Cursor.COffsetId
  | 12 -> c (Cursor.CLookupId (n_of_z (Z.erem (Z.add base_z arg) two64)))
  | 13 -> c Cursor.CRootLookupSelf
  | 14 -> c Cursor.COffsetFromRoot
  | 15 -> c Cursor.CToSlice
  | 16 -> c Cursor.CToString
  | 17 -> c Cursor.CReadCstr
  | 18 -> c (Cursor.CReadAddress (n_of_z arg))
  | 19 -> c (Cursor.CReadOffset (Z.equal arg (Z.of_int 8)))
  | 20 -> c (Cursor.CReadLength (Z.equal arg (Z.of_int 8)))
  | 21 -> c (Cursor.CReadSizedOffset (n_of_z arg))
  | 22 -> Some (Cursor.PClone ni)
  | 23 -> Some (Cursor.PDrop ni)
  | 24 -> Some (Cursor.POffsetFrom (ni, small ()))
  | 25 -> Some (Cursor.PLookup (ni, small ()))
  | _ -> None

let obs (c : Cursor.cur) = string_of_n c.Cursor.off ^ "." ^ string_of_n c.Cursor.len

let show_val k (v : Cursor.cur Cursor.oval) =
  match v with
  | Cursor.VUnit -> "u"
  | Cursor.VNum n ->
      if k = 11 then "n" ^ Z.to_string (Z.erem (Z.sub (z_of_n n) base_z) two64) else "n" ^ string_of_n n
  | Cursor.VInt z -> "i" ^ string_of_cz z
  | Cursor.VBool b -> if b then "t" else "f"
  | Cursor.VBytes bs -> "b" ^ hex_of_bytes bs
  | Cursor.VRd r -> "r" ^ obs r
  | Cursor.VOpt None -> "none"
  | Cursor.VOpt (Some x) -> "s" ^ string_of_n x

let trace dbg be (root : Cursor.cur) (ops : op list) : string =
  let b = Buffer.create 256 in
  Buffer.add_string b "ok";
  let pool = ref [root] in
  List.iter (fun ((k, i, _) as o) ->
    Buffer.add_char b ' ';
    match pop_of o with
    | None -> Buffer.add_string b "badop"
    | Some p ->
        let (p', r) = Cursor.pstep dbg be root !pool p in
        pool := p';
        let tok = match r with
          | None -> "x"
          | Some (Res.Ok v) -> show_val k v
          | Some (Res.Err e) -> "E" ^ Errnames.name e
          | Some Res.Panic -> "P"
          | Some Res.OutOfFuel -> "F" in
        Buffer.add_string b tok;
        if tok <> "x" && k <> 23 && i < List.length p' then begin
          Buffer.add_char b '/'; Buffer.add_string b (obs (List.nth p' i)) end) ops;
  Buffer.contents b

let case_line stream mask be (buf : int list) (ops : op list) =
  let b = Buffer.create 256 in
  Buffer.add_string b (Printf.sprintf "%s %d %d %s" stream mask (if be then 1 else 0) (hex_of_ints buf));
  List.iter (fun (k, i, a) -> Buffer.add_string b (Printf.sprintf " %d %d %s" k i (Z.to_string a))) ops;
  Buffer.contents b

(* every history runs on all six reader kinds (EndianSlice::empty keeps its position since gimli fd639ac,
   so no history needs to be restricted to the reference-counted kinds any more) *)
let emit_case emit stream be buf ops =
  let root = Cursor.coq_new (bytes_of_ints buf) base_n in
  both emit (case_line stream all_kinds be buf ops) (fun dbg -> trace dbg be root ops)

(* ---- buffers ---- *)
let utf8_chunks = [|
  [0x41]; [0x7f]; [0]; [0xc3; 0xa9]; [0xc2; 0x80]; [0xdf; 0xbf]; [0xe2; 0x82; 0xac]; [0xe0; 0xa0; 0x80];
  [0xed; 0x9f; 0xbf]; [0xee; 0x80; 0x80]; [0xef; 0xbf; 0xbf]; [0xf0; 0x9f; 0x9a; 0x80]; [0xf0; 0x90; 0x80; 0x80];
  [0xf4; 0x8f; 0xbf; 0xbf]; [0xf1; 0x80; 0x80; 0x80] |]
let bad_chunks = [|
  [0x80]; [0xbf]; [0xc0; 0x80]; [0xc1; 0xbf]; [0xe0; 0x9f; 0x80]; [0xed; 0xa0; 0x80]; [0xf0; 0x8f; 0x80; 0x80];
  [0xf4; 0x90; 0x80; 0x80]; [0xf5; 0x80; 0x80; 0x80]; [0xff]; [0xc3]; [0xe2; 0x82]; [0xf0; 0x9f; 0x9a] |]

let gen_buf r =
  let len = match rand_int r 12 with 0 -> 0 | 1 -> 1 | 2 -> 2 + rand_int r 3 | 3 | 4 -> 24 + rand_int r 17 | _ -> 4 + rand_int r 21 in
  match rand_int r 4 with
  | 0 -> List.init len (fun _ -> match rand_int r 4 with 0 -> 0 | _ -> 0x20 + rand_int r 0x5f)
  | 1 -> List.init len (fun _ -> match rand_int r 5 with 0 -> 0 | 1 -> 0xff | 2 -> 0x80 | _ -> rand_int r 256)
  | 2 -> List.init len (fun _ -> if rand_int r 7 = 0 then 0 else rand_int r 256)
  | _ ->
      let rec go acc n = if n <= 0 then acc else
        let ch = match rand_int r 7 with 0 -> pick r bad_chunks | 1 -> [0] | _ -> pick r utf8_chunks in
        go (acc @ ch) (n - List.length ch) in
      go [] len

(* ---- random histories, generated while running the model so that most arguments are in range ---- *)
let zi = Z.of_int
let huge r = pick r [| Z.pred two64; Z.shift_left Z.one 63; Z.shift_left Z.one 32; Z.pred (Z.shift_left Z.one 63) |]

let gen_ops r ~allow_empty be (buf : int list) : op list =
  let root = Cursor.coq_new (bytes_of_ints buf) base_n in
  let blen = List.length buf in
  let pool = ref [root] in
  let ops = ref [] in
  let nops = 1 + rand_int r 14 in
  for _ = 1 to nops do
    let np = List.length !pool in
    let i =
      if np = 0 then rand_int r 2
      else if rand_int r 40 = 0 then np + rand_int r 2
      else match rand_int r 4 with
        | 0 -> np - 1
        | 1 -> rand_int r np
        | _ -> (* the reader with the most bytes left *)
            let best = ref 0 and bl = ref (-1) in
            List.iteri (fun j c -> let x = int_of_n c.Cursor.len in if x > !bl then (bl := x; best := j)) !pool;
            !best in
    let cur = if i < np then Some (List.nth !pool i) else None in
    let l = match cur with Some c -> int_of_n c.Cursor.len | None -> 0 in
    let o = match cur with Some c -> int_of_n c.Cursor.off | None -> 0 in
    let size () =
      match rand_int r 20 with
      | 0 | 1 | 2 -> zi l
      | 3 | 4 -> zi (l + 1)
      | 5 -> zi 0
      | 6 -> zi (l + 1 + rand_int r 4)
      | 7 -> huge r
      | 8 -> zi 1
      | 9 | 10 | 11 | 12 | 13 | 14 -> zi (rand_int r (1 + min l 4))
      | _ -> zi (rand_int r (l + 1)) in
    let tsize () =
      match rand_int r 3 with
      | 0 -> size ()
      | _ -> zi (max 0 (l - rand_int r 4)) in
    (* a width that mostly fits the remaining length *)
    let fit (a : int array) =
      let x = pick r a in
      if x <= l || rand_int r 5 = 0 then x else
      let ok = List.filter (fun y -> y <= l) (Array.to_list a) in
      (match ok with [] -> x | _ -> List.nth ok (rand_int r (List.length ok))) in
    let other () = if np = 0 then 0 else if rand_int r 30 = 0 then np else rand_int r np in
    let w = [|
      6, (fun () -> (0, i, zi (match rand_int r 6 with 0 -> l | 1 -> l + 1 | 2 -> 0 | _ -> rand_int r (l + 2))));
      10, (fun () -> (1, i, zi (fit [| 1; 2; 4; 8; 16; 1; 2 |])));
      4, (fun () -> (2, i, zi (fit [| 1; 2; 4; 8 |])));
      4, (fun () -> (3, i, zi (match rand_int r 10 with 0 -> 9 | 1 -> 0 | 2 -> 12 | 3 -> 1 + rand_int r 8
                                | _ -> 1 + rand_int r (max 1 (min 8 l)))));
      10, (fun () -> (4, i, size ()));
      10, (fun () -> (5, i, size ()));
      8, (fun () -> (6, i, tsize ()));
      (if allow_empty then 5 else 0), (fun () -> (7, i, Z.zero));
      6, (fun () -> (8, i, zi (match rand_int r 8 with 0 -> 0 | 1 -> 0xff | 2 -> rand_int r 256
                                 | 3 -> (match buf with [] -> 7 | _ -> List.nth buf (rand_int r blen))
                                 | _ -> (* a byte of the current window *)
                                   if l = 0 then 0 else List.nth buf (min (blen - 1) (o + rand_int r l)))));
      2, (fun () -> (9, i, Z.zero));
      2, (fun () -> (10, i, Z.zero));
      3, (fun () -> (11, i, Z.zero));
      5, (fun () -> (12, i, (match rand_int r 10 with
                             | 0 -> Z.pred two64 | 1 -> zi (blen + 1) | 2 -> huge r
                             | 3 -> zi (max 0 (o - 1)) | 4 -> zi (o + l) | 5 -> zi (o + l + 1) | 6 -> zi o
                             | _ -> zi (rand_int r (blen + 1)))));
      3, (fun () -> (13, i, Z.zero));
      3, (fun () -> (14, i, Z.zero));
      3, (fun () -> (15, i, Z.zero));
      3, (fun () -> (16, i, Z.zero));
      8, (fun () -> (17, i, Z.zero));
      4, (fun () -> (18, i, zi (if rand_int r 5 = 0 then pick r [| 0; 3; 16; 255; 9 |] else fit [| 1; 2; 4; 8 |])));
      3, (fun () -> (19, i, zi (fit [| 4; 8 |])));
      2, (fun () -> (20, i, zi (fit [| 4; 8 |])));
      3, (fun () -> (21, i, zi (if rand_int r 5 = 0 then pick r [| 0; 5; 16; 255; 3 |] else fit [| 1; 2; 4; 8 |])));
      6, (fun () -> (22, i, Z.zero));
      (if np >= 2 then 4 else if rand_int r 10 = 0 then 2 else 0), (fun () -> (23, i, Z.zero));
      5, (fun () -> (24, i, zi (other ())));
      4, (fun () -> (25, i, zi (other ())));
    |] in
    let total = Array.fold_left (fun a (x, _) -> a + x) 0 w in
    let t = ref (rand_int r total) in
    let chosen = ref None in
    Array.iter (fun (x, f) ->
      if !chosen = None then (if !t < x then chosen := Some (f ()) else t := !t - x)) w;
    let op = match !chosen with Some o -> o | None -> (9, i, Z.zero) in
    ops := op :: !ops;
    (match pop_of op with
     | Some p -> let (p', _) = Cursor.pstep true be root !pool p in pool := p'
     | None -> ())
  done;
  List.rev !ops

(* ---- exhaustive short histories over a fixed alphabet ---- *)
let seq_buf = [0x41; 0x00; 0xc3; 0xa9; 0x00]
let seq_alpha : op array = [|
  (4, 0, zi 1); (4, 0, zi 3); (4, 0, zi 6);
  (5, 0, zi 1); (5, 0, zi 2); (5, 1, zi 1);
  (6, 0, zi 1); (6, 0, zi 4); (6, 1, zi 0);
  (7, 0, Z.zero);
  (17, 0, Z.zero); (17, 1, Z.zero);
  (1, 0, zi 1); (1, 0, zi 2); (1, 1, zi 1);
  (22, 0, Z.zero); (23, 0, Z.zero);
  (24, 1, zi 0); (24, 0, zi 1); (25, 0, zi 1);
  (16, 0, Z.zero); (8, 0, zi 0); (18, 0, zi 2); (12, 0, zi 5);
|]

let () =
  register "c10.seq" ~doc:"every history of length <= 3 (n >= 100000: <= 4) over a 24-symbol alphabet of reader calls on a fixed 5-byte section, all six reader kinds"
    (fun ~seed:_ ~n emit ->
      let maxlen = if n >= 100000 then 4 else 3 in
      let na = Array.length seq_alpha in
      let rec go prefix depth =
        if depth > 0 then
          for a = 0 to na - 1 do
            let h = prefix @ [seq_alpha.(a)] in
            emit_case emit "c10.seq" false seq_buf h;
            go h (depth - 1)
          done in
      go [] maxlen;
      (* both byte orders on the length-2 histories *)
      for a = 0 to na - 1 do for b = 0 to na - 1 do
        emit_case emit "c10.seq" true seq_buf [seq_alpha.(a); seq_alpha.(b)] done done);
  register "c10.ops" ~doc:"random histories (1..14 calls, in-range and out-of-range arguments, clone/split/drop in any order) on random sections of 0..40 bytes, all six reader kinds"
    (fun ~seed ~n emit ->
      let r = mk_rng seed in
      for _ = 1 to n do
        let be = rand_bool r in
        let buf = gen_buf r in
        let allow_empty = rand_int r 3 <> 0 in
        let ops = gen_ops r ~allow_empty be buf in
        emit_case emit "c10.ops" be buf ops
      done);
  register "c10.utf8" ~doc:"Reader::to_string: every byte string of length <= 2, a boundary grid of 3- and 4-byte sequences, random mixes of well-formed and ill-formed chunks"
    (fun ~seed ~n emit ->
      let k l = emit_case emit "c10.utf8" false l [(16, 0, Z.zero)] in
      k [];
      for a = 0 to 255 do k [a] done;
      for a = 0 to 255 do for b = 0 to 255 do k [a; b] done done;
      let leads = [0xc2; 0xdf; 0xe0; 0xe1; 0xec; 0xed; 0xee; 0xef; 0xf0; 0xf1; 0xf3; 0xf4; 0xf5; 0xc0; 0xc1; 0x80; 0xff] in
      let seconds = [0x7f; 0x80; 0x8f; 0x90; 0x9f; 0xa0; 0xbf; 0xc0] in
      let conts = [0x7f; 0x80; 0xbf; 0xc0] in
      List.iter (fun a -> List.iter (fun b -> List.iter (fun c ->
        k [a; b; c]; k [0x41; a; b; c; 0x41];
        List.iter (fun d -> k [a; b; c; d]; k [a; b; c; d; 0x80]) conts) conts) seconds) leads;
      let r = mk_rng seed in
      for _ = 1 to n do
        let rec go acc m = if m <= 0 then acc else
          let ch = match rand_int r 5 with 0 -> pick r bad_chunks | 1 -> [rand_int r 256] | _ -> pick r utf8_chunks in
          go (acc @ ch) (m - 1) in
        let l = go [] (1 + rand_int r 6) in
        (* sometimes cut inside a sequence *)
        let l = if rand_int r 4 = 0 then List.filteri (fun i _ -> i < List.length l - 1) l else l in
        k l
      done)

(* ---- whole-section parses under every reader kind (no model: the harness compares the six dumps) ---- *)
let rec uleb n = if n < 128 then [n] else ((n land 127) lor 128) :: uleb (n lsr 7)
let rec sleb n =
  let b = n land 127 in
  let n' = n asr 7 in
  if (n' = 0 && b land 64 = 0) || (n' = -1 && b land 64 <> 0) then [b] else (b lor 128) :: sleb n'
let enc_int be w v =
  let l = List.init w (fun i -> (v lsr (8 * i)) land 255) in if be then List.rev l else l
let cstr r = List.init (rand_int r 5) (fun _ -> 0x61 + rand_int r 26) @ [0]

let mutate r l =
  match rand_int r 14 with
  | 0 -> let k = rand_int r (List.length l + 1) in List.filteri (fun i _ -> i < k) l   (* truncate *)
  | 1 -> let k = rand_int r (max 1 (List.length l)) in List.mapi (fun i x -> if i = k then rand_int r 256 else x) l
  | 2 -> l @ rand_bytes r (1 + rand_int r 3)
  | _ -> l

let gen_abbrev r =
  let n = rand_int r 6 in
  let forms = [| 0x01; 0x03; 0x05; 0x08; 0x0b; 0x0e; 0x0f; 0x13; 0x17; 0x18; 0x19; 0x21; 0x1a; 0x25 |] in
  let one code =
    uleb code @ uleb (match rand_int r 30 with 0 -> 0 | 1 | 2 -> 0x4109 | _ -> 1 + rand_int r 0x4b)
    @ [ (match rand_int r 40 with 0 -> 2 | x -> x land 1) ]
    @ List.concat (List.init (rand_int r 5) (fun _ ->
        let form = if rand_int r 40 = 0 then rand_int r 0x30 else pick r forms in
        uleb (if rand_int r 60 = 0 then 0 else 1 + rand_int r 0x8f) @ uleb form
        @ (if form = 0x21 then sleb (rand_int r 2000 - 1000) else [])))
    @ [0; 0] in
  let body = List.concat (List.init n (fun i ->
    one (if rand_int r 30 = 0 then 1 + rand_int r 3 else if rand_int r 8 = 0 then 30 + rand_int r 30 else i + 1))) in
  body @ (if rand_int r 8 = 0 then [] else [0])

let gen_line r be asz =
  let version = if rand_int r 40 = 0 then pick r [| 1; 6; 0 |] else 2 + rand_int r 3 in
  let opcode_base = match rand_int r 6 with 0 -> 1 | 1 -> 10 | 2 -> 14 | _ -> 13 in
  let line_range = match rand_int r 30 with 0 -> 0 | 1 | 2 -> 255 | _ -> 14 in
  let std_lengths = List.init (max 0 (opcode_base - 1)) (fun i ->
    if rand_int r 20 = 0 then rand_int r 3 else
    (match i + 1 with 2 | 3 | 4 | 5 | 12 -> 1 | 9 -> 1 | _ -> 0)) in
  let dirs = List.concat (List.init (rand_int r 3) (fun _ -> let c = cstr r in if c = [0] then [0x64; 0] else c)) @ [0] in
  let files = List.concat (List.init (rand_int r 3) (fun _ ->
    (let c = cstr r in if c = [0] then [0x66; 0] else c) @ uleb (rand_int r 3) @ uleb (rand_int r 300) @ uleb (rand_int r 70000))) @ [0] in
  let after_hl =
    [ (match rand_int r 30 with 0 -> 0 | 1 | 2 -> 4 | _ -> 1) ]
    @ (if version >= 4 then [ (match rand_int r 30 with 0 -> 0 | 1 | 2 -> 4 | _ -> 1) ] else [])
    @ [ rand_int r 2; (256 - 5) land 255; line_range; opcode_base ] @ std_lengths @ dirs @ files in
  let ext sub payload = [0] @ uleb (1 + List.length payload) @ [sub] @ payload in
  let prog = List.concat (List.init (rand_int r 12) (fun _ ->
    match rand_int r 16 with
    | 0 -> [1]
    | 1 -> [2] @ uleb (rand_int r 500)
    | 2 -> [3] @ sleb (rand_int r 200 - 100)
    | 3 -> [4] @ uleb (rand_int r 4)
    | 4 -> [5] @ uleb (rand_int r 100)
    | 5 -> [pick r [| 6; 7; 8; 10; 11 |]]
    | 6 -> [9] @ enc_int be 2 (rand_int r 65536)
    | 7 -> [12] @ uleb (rand_int r 5)
    | 8 -> ext 1 []
    | 9 -> ext 2 (enc_int be asz (0x1000 + rand_int r 0x100000))
    | 10 -> ext 3 (cstr r @ uleb (rand_int r 3) @ uleb 0 @ uleb 0)
    | 11 -> ext 4 (uleb (rand_int r 9))
    | 12 -> ext (0x80 + rand_int r 4) (rand_bytes r (rand_int r 4))
    | _ -> [opcode_base + rand_int r (256 - opcode_base)])) @ (if rand_bool r then ext 1 [] else []) in
  let hl = List.length after_hl in
  let body = enc_int be 2 version @ enc_int be 4 (match rand_int r 30 with 0 -> hl + 7 | 1 -> max 0 (hl - 1) | _ -> hl) @ after_hl @ prog in
  let ul = List.length body in
  enc_int be 4 (match rand_int r 30 with 0 -> ul + 5 | 1 -> max 0 (ul - 2) | _ -> ul) @ body

let gen_expr r be asz =
  let one () =
    match rand_int r 24 with
    | 0 -> [0x30 + rand_int r 32]
    | 1 -> [0x03] @ enc_int be asz (rand_int r 0x10000)
    | 2 -> [0x08; rand_int r 256]
    | 3 -> [0x10] @ uleb (rand_int r 100000)
    | 4 -> [0x11] @ sleb (rand_int r 2000 - 1000)
    | 5 -> [pick r [| 0x12; 0x13; 0x16; 0x22; 0x1c; 0x06; 0x96; 0x9c; 0x9f |]]
    | 6 -> [pick r [| 0x28; 0x2f |]] @ enc_int be 2 (rand_int r 65536)
    | 7 -> [0x93] @ uleb (rand_int r 64)
    | 8 -> let d = rand_bytes r (rand_int r 5) in [0x9e] @ uleb (List.length d + (if rand_int r 6 = 0 then 1 + rand_int r 9 else 0)) @ d
    | 9 -> let d = (match rand_int r 3 with 0 -> [0x30] | 1 -> [0x50 + rand_int r 32] | _ -> rand_bytes r (rand_int r 4)) in
        [0xa3] @ uleb (List.length d) @ d
    | 10 -> [0x91] @ sleb (rand_int r 400 - 200)
    | 11 -> [0x70 + rand_int r 32] @ sleb (rand_int r 64 - 32)
    | 12 -> [0x90] @ uleb (rand_int r 70)
    | 13 -> [0x94; pick r [| 1; 2; 4; 8; 0; 9 |]]
    | 14 -> let d = rand_bytes r (rand_int r 5) in [0xa4] @ uleb (rand_int r 300) @ [List.length d] @ d
    | 15 -> [0xa8] @ uleb (rand_int r 300)
    | 16 -> [0xf3] @ uleb (rand_int r 64)
    | 17 -> [0x50 + rand_int r 32]
    | 18 -> [0x92] @ uleb (rand_int r 40) @ sleb (rand_int r 100 - 50)
    | 19 -> [0x9d] @ uleb (rand_int r 64) @ uleb (rand_int r 64)
    | 20 -> [0xa0] @ enc_int be 4 (rand_int r 1000) @ sleb (rand_int r 10)
    | 21 -> [0xa1] @ uleb (rand_int r 10)
    | 22 -> if rand_int r 3 = 0 then [rand_int r 256] else [0x1a + rand_int r 12]
    | _ -> [0x23] @ uleb (rand_int r 1000) in
  List.concat (List.init (1 + rand_int r 7) (fun _ -> one ()))

let () =
  register "c10.parse" ~doc:"small generated .debug_abbrev / .debug_line (v2-4) / expression blobs (valid, truncated, mutated) parsed under each of the six reader kinds; dumps must be identical"
    (fun ~seed ~n emit ->
      let r = mk_rng seed in
      for i = 1 to n do
        let be = rand_bool r in
        let asz = pick r [| 4; 8; 8; 2 |] in
        let what = 1 + (i mod 3) in
        let blob = match what with
          | 1 -> gen_abbrev r
          | 2 -> gen_line r be (if asz = 2 then 4 else asz)
          | _ -> gen_expr r be (if asz = 2 then 4 else asz) in
        let blob = mutate r blob in
        (* flag=1 (expressions): also compare OperationIter::offset_from after an error *)
        let flag = if what = 3 then 1 else 0 in
        let case = Printf.sprintf "c10.parse %d %d %d %d %s" what (if be then 1 else 0) flag
            (if asz = 2 then 4 else asz) (hex_of_ints blob) in
        emit case "same" "same"
      done)
let init () = ()
