(* streams.ml — registry of correspondence streams.
   A stream generator calls [emit case expected_debug expected_release] for each case.
   [case] is a space-separated token line starting with the stream name. *)
type emit = string -> string -> string -> unit
type gen = seed:int -> n:int -> emit -> unit
let table : (string, gen * string) Hashtbl.t = Hashtbl.create 64
let register (name : string) ~(doc : string) (g : gen) = Hashtbl.replace table name (g, doc)
let both (emit : emit) case (f : bool -> string) = emit case (f true) (f false)
