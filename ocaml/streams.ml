(* streams.ml — registry of correspondence streams.
   A stream generator calls [emit case expected_debug expected_release] for each case.
   [case] is a space-separated token line starting with the stream name.
   Sharding: the driver sets [shard]; case number [!idx] belongs to this process iff idx mod n = k.
   [both] is lazy: the model is evaluated only for the cases of this shard. *)
type emit = string -> string -> string -> unit
type gen = seed:int -> n:int -> emit -> unit
let table : (string, gen * string) Hashtbl.t = Hashtbl.create 64
let register (name : string) ~(doc : string) (g : gen) = Hashtbl.replace table name (g, doc)
let idx = ref 0
let shard = ref (0, 1)
let mine () = let (k, n) = !shard in !idx mod n = k
let skip () = incr idx
let both (emit : emit) case (f : bool -> string) =
  if mine () then emit case (f true) (f false) else skip ()
