(* s_c16.ml — streams for C16 (written range / location lists). Model side: extracted ListsWr (writers,
   tables, Unit::write glue) and ListWrSpec (meaning of a written list, decoders).

   Case line (all streams share it):
     <stream> be nunits UNIT* EXPECT*
     UNIT   = version fmt64 asz lpkind lps lpv  nr RLIST*  nl LLIST*
              lpkind: 0 no DW_AT_low_pc, 1 AttributeValue::Address(ADDR lps lpv), 2 AttributeValue::Udata(lpv)
     ADDR   = s v      s = 0: Address::Constant(v);  s >= 1: Address::Symbol{symbol: s-1, addend: v}
     RLIST  = n RENT*  RENT = 0 ADDR | 1 b e | 2 ADDR ADDR | 3 ADDR len
     LLIST  = n LENT*  LENT = 0 ADDR | 1 b e hex | 2 ADDR ADDR hex | 3 ADDR len hex | 4 hex
     EXPECT = per unit, per added range list: cnt (b e)* ; per added location list: cnt (b e hex)*
              = ListWrSpec.meaning_rng/meaning_loc relative to ListWrSpec.unit_base of the root attributes
                (cnt 0 when the list has a symbolic address). The harness compares what gimli's READER
                yields on gimli's own output with these (readback-mismatch).
   Result line: ok <.debug_ranges> <.debug_rnglists> <.debug_loc> <.debug_loclists> <offset of every added list>
              | err <Variant> | panic *)
open Conv
open Streams
module S = ListWrSpec
module M = ListsWr

type lowpc = LpNone | LpAddr of S.addr | LpUdata of Z.t
type unit_in = { version : int; fmt64 : bool; asz : int; lp : lowpc;
                 rl : S.wrange list list; ll : S.wloc list list }

let n_ z = n_of_z z
let p2 k = Z.shift_left Z.one k
let max64 = Z.pred (p2 64)

(* ---- printing of a case ---- *)
let tok_addr = function
  | S.AConst v -> "0 " ^ string_of_n v
  | S.ASym (s, a) -> Z.to_string (Z.succ (z_of_n s)) ^ " " ^ string_of_cz a
let tok_rent = function
  | S.RBase a -> "0 " ^ tok_addr a
  | S.ROffsetPair (b, e) -> "1 " ^ string_of_n b ^ " " ^ string_of_n e
  | S.RStartEnd (b, e) -> "2 " ^ tok_addr b ^ " " ^ tok_addr e
  | S.RStartLength (b, l) -> "3 " ^ tok_addr b ^ " " ^ string_of_n l
let tok_lent = function
  | S.LBase a -> "0 " ^ tok_addr a
  | S.LOffsetPair (b, e, d) -> "1 " ^ string_of_n b ^ " " ^ string_of_n e ^ " " ^ hex_of_bytes d
  | S.LStartEnd (b, e, d) -> "2 " ^ tok_addr b ^ " " ^ tok_addr e ^ " " ^ hex_of_bytes d
  | S.LStartLength (b, l, d) -> "3 " ^ tok_addr b ^ " " ^ string_of_n l ^ " " ^ hex_of_bytes d
  | S.LDefault d -> "4 " ^ hex_of_bytes d
let tok_list f l = String.concat " " (string_of_int (List.length l) :: List.map f l)
let attrs_of u = match u.lp with
  | LpNone -> []
  | LpAddr a -> [ (S.coq_DW_AT_low_pc, S.VAddress a) ]
  | LpUdata v -> [ (S.coq_DW_AT_low_pc, S.VUdata (n_ v)) ]
let tok_unit u =
  let lp = match u.lp with
    | LpNone -> "0 0 0" | LpAddr a -> "1 " ^ tok_addr a | LpUdata v -> "2 0 " ^ Z.to_string v in
  String.concat " " ([ string_of_int u.version; (if u.fmt64 then "1" else "0"); string_of_int u.asz; lp;
                       string_of_int (List.length u.rl) ] @ List.map (tok_list tok_rent) u.rl
                     @ [ string_of_int (List.length u.ll) ] @ List.map (tok_list tok_lent) u.ll)
let tok_expect u =
  let asz = n_of_int u.asz in
  let base = S.unit_base (attrs_of u) in
  let r l = match S.meaning_rng asz base l with
    | None -> "0"
    | Some rs -> String.concat " " (string_of_int (List.length rs) ::
                   List.map (fun (b, e) -> string_of_n b ^ " " ^ string_of_n e) rs) in
  let l l = match S.meaning_loc asz base l with
    | None -> "0"
    | Some rs -> String.concat " " (string_of_int (List.length rs) ::
                   List.map (fun ((b, e), d) -> string_of_n b ^ " " ^ string_of_n e ^ " " ^ hex_of_bytes d) rs) in
  String.concat " " (List.map r u.rl @ List.map l u.ll)
let case_line stream be units =
  String.concat " " ([ stream; (if be then "1" else "0"); string_of_int (List.length units) ]
                     @ List.map tok_unit units @ List.filter (fun s -> s <> "") (List.map tok_expect units))

(* ---- model evaluation: Dwarf::write over the units, sections accumulate ---- *)
exception Stop of string
let len_n l = n_of_int (List.length l)

let selfcheck = (try Sys.getenv "GV_SELFCHECK" <> "0" with Not_found -> true)

let eval dbg be units =
  let r4 = ref [] and r5 = ref [] and l4 = ref [] and l5 = ref [] in
  let offs = ref [] in
  try
    List.iter (fun u ->
      let (rtbl, rids) = M.rng_add_all [] u.rl in
      let (ltbl, lids) = M.loc_add_all [] u.ll in
      let rsec = if u.version <= 4 then r4 else r5 and lsec = if u.version <= 4 then l4 else l5 in
      let asz = n_of_int u.asz in
      match M.unit_write_lists be u.fmt64 (n_of_int u.version) asz (attrs_of u)
              (len_n !rsec) (len_n !lsec) rtbl ltbl with
      | Res.Ok ((rb, ro), (lb, lo)) ->
          rsec := !rsec @ rb; lsec := !lsec @ lb;
          let get o id = match M.offsets_get o id with Res.Ok x -> x | _ -> raise (Stop "panic") in
          List.iter (fun id -> offs := get ro id :: !offs) rids;
          List.iter (fun id -> offs := get lo id :: !offs) lids;
          (* self-check of the spec (what the theorems say), on every generated case: the bytes at the offset
             decode and resolve to the meaning of the written list *)
          if selfcheck && List.mem u.asz [1; 2; 4; 8] then begin
            let base = S.unit_base (attrs_of u) in
            let chk loc sec o ids lists =
              List.iter2 (fun id l ->
                begin
                  let bs = S.at_offset (get o id) !sec in
                  let dec = if u.version <= 4 then S.dec4 dbg loc be asz bs else S.dec5 dbg loc be asz bs in
                  match dec, S.meaning_loc asz base l with
                  | Res.Ok (es, _), Some m when S.resolve asz base es = m -> ()
                  | _ -> prerr_endline ("SELFCHECK FAILED: " ^ case_line "c16.self" be [u]); exit 3
                end) ids lists in
            chk false rsec ro rids (List.map (List.map S.loc_of_range) u.rl);
            chk true lsec lo lids u.ll
          end
      | Res.Err e -> raise (Stop ("err " ^ Errnames.name e))
      | Res.Panic -> raise (Stop "panic")
      | Res.OutOfFuel -> raise (Stop "outoffuel")) units;
    (* a unit whose address size the reader refuses cannot be read back: the harness prints no offsets then *)
    let readable = List.for_all (fun u -> List.mem u.asz [1; 2; 4; 8]) units in
    String.concat " " ([ "ok"; hex_of_bytes !r4; hex_of_bytes !r5; hex_of_bytes !l4; hex_of_bytes !l5 ]
                       @ (if readable then List.rev_map string_of_n !offs else []))
  with Stop s -> s

(* ---- generators ---- *)
let amod asz = p2 (8 * asz)

(* boundary-biased value for an address-size field *)
let pool_vals asz =
  let m = amod (if asz >= 1 && asz <= 8 then asz else 4) in
  [| Z.zero; Z.one; Z.of_int 2; Z.of_int 0x20; Z.of_int 0x30; Z.of_int 0x40; Z.of_int 0x7f; Z.of_int 0x80;
     Z.sub m (Z.of_int 3); Z.sub m (Z.of_int 2); Z.pred m; m; Z.succ m; p2 63; Z.pred (p2 63);
     Z.pred max64; max64; Z.shift_right m 1 |]
let u64 z = Z.logand z max64
let rand_val r asz =
  let m = amod (if asz >= 1 && asz <= 8 then asz else 4) in
  match rand_int r 10 with
  | 0 | 1 | 2 -> u64 (pick r (pool_vals asz))
  | 3 | 4 | 5 -> Z.of_int (rand_int r 0x1000)
  | 6 | 7 -> Z.rem (rand_z64 r) m
  | 8 -> u64 (Z.sub m (Z.of_int (rand_int r 0x100)))
  | _ -> boundary_z64 r
(* a value that fits the address size and is not a marker/tombstone, for "valid" lists *)
let rand_fit r asz =
  let m = amod (if asz >= 1 && asz <= 8 then asz else 4) in
  let lim = Z.sub m (Z.of_int 3) in
  Z.rem (match rand_int r 3 with 0 -> Z.of_int (rand_int r 0x100) | 1 -> rand_z64 r | _ -> Z.of_int (rand_int r 0x10000)) lim
let rand_addr r asz wild =
  if wild && rand_int r 12 = 0 then
    let a = match rand_int r 4 with
      | 0 -> Z.zero | 1 -> Z.pred (p2 63) | 2 -> Z.neg (p2 63) | _ -> Z.of_int (rand_int r 100 - 50) in
    S.ASym (n_of_int (rand_int r 3), cz_of_z a)
  else S.AConst (n_ (if wild then rand_val r asz else rand_fit r asz))
let data_lens = [| 0; 0; 1; 1; 2; 3; 5; 127; 128; 129; 300 |]
let rand_data r = bytes_of_ints (rand_bytes r (pick r data_lens))

(* length for StartLength: wrap-around sums included when wild *)
let rand_len r asz (b : S.addr) wild =
  let m = amod (if asz >= 1 && asz <= 8 then asz else 4) in
  match b with
  | S.AConst bv when wild ->
      let b = z_of_n bv in
      (match rand_int r 8 with
       | 0 -> Z.zero
       | 1 -> u64 (Z.sub m b)                       (* begin + len = 2^(8 asz) *)
       | 2 -> u64 (Z.sub (Z.pred m) b)              (* end = all-ones *)
       | 3 -> u64 (Z.sub (p2 64) b)                 (* wraps to 0 in u64 *)
       | 4 -> u64 (Z.add (Z.sub (p2 64) b) (Z.of_int (rand_int r 0x40)))
       | 5 -> Z.of_int (1 + rand_int r 0x100)
       | _ -> rand_val r asz)
  | S.AConst bv ->
      let b = z_of_n bv in
      let room = Z.sub (Z.sub m (Z.of_int 3)) b in
      if Z.sign room <= 0 then Z.one else Z.succ (Z.rem (Z.of_int (rand_int r 0x10000)) room)
  | S.ASym (_, a) ->
      (match rand_int r 5 with
       | 0 -> Z.zero
       | 1 -> u64 (Z.sub (Z.pred (p2 63)) (z_of_cz a))          (* addend + len = i64::MAX *)
       | 2 -> u64 (Z.sub (p2 63) (z_of_cz a))                   (* one more: overflow *)
       | 3 -> max64                                             (* as i64 = -1 *)
       | _ -> Z.of_int (rand_int r 0x100))

(* one list; hb = unit has a base address; valid = obey the rules of the version *)
let gen_list r ~loc ~version ~asz ~hb ~wild =
  let n = match rand_int r 10 with 0 -> 0 | 1 | 2 | 3 -> 1 | 4 | 5 | 6 -> 2 | 7 | 8 -> 3 | _ -> 4 + rand_int r 3 in
  let hb = ref hb in
  List.init n (fun _ ->
    let kinds =
      if wild || version >= 5 then [| 0; 1; 1; 2; 2; 3; 3; (if loc then 4 else 1) |]
      else if !hb then [| 0; 1; 1; 1 |] else [| 0; 2; 2; 3; 3 |] in
    let d () = if loc then rand_data r else [] in
    match pick r kinds with
    | 0 -> hb := true; S.LBase (rand_addr r asz wild)
    | 1 ->
        let b = if wild then rand_val r asz else rand_fit r asz in
        let e = if wild then (if rand_int r 6 = 0 then b else rand_val r asz)
          else Z.add b (Z.succ (Z.rem (Z.of_int (rand_int r 0x100)) (Z.max Z.one (Z.sub (Z.sub (amod (if asz >= 1 && asz <= 8 then asz else 4)) (Z.of_int 3)) b)))) in
        S.LOffsetPair (n_ b, n_ e, d ())
    | 2 ->
        let b = rand_addr r asz wild in
        let e = if wild && rand_int r 6 = 0 then b else
          (match b with
           | S.AConst bv when not wild -> S.AConst (n_ (Z.succ (z_of_n bv)))
           | _ -> rand_addr r asz wild) in
        S.LStartEnd (b, e, d ())
    | 3 ->
        let b = rand_addr r asz wild in
        S.LStartLength (b, n_ (rand_len r asz b wild), d ())
    | _ -> S.LDefault (d ()))

let range_of_loc = function
  | S.LBase a -> S.RBase a
  | S.LOffsetPair (b, e, _) -> S.ROffsetPair (b, e)
  | S.LStartEnd (b, e, _) -> S.RStartEnd (b, e)
  | S.LStartLength (b, l, _) -> S.RStartLength (b, l)
  | S.LDefault _ -> S.ROffsetPair (n_of_int 1, n_of_int 2)

let rand_lp ?(tame = false) r asz =
  match rand_int r (if tame then 9 else 12) with
  | 0 | 1 | 2 -> LpNone
  | 3 | 4 -> LpAddr (S.AConst N0)
  | 5 | 6 | 7 | 8 -> LpAddr (S.AConst (n_ (Z.succ (rand_fit r asz))))
  | 9 -> let m = amod (min 8 (max 1 asz)) in
         LpAddr (S.AConst (n_ (u64 (pick r [| Z.pred m; Z.sub m (Z.of_int 2); m |]))))
  | 10 -> LpUdata (Z.of_int (rand_int r 3 * 0x1000))
  | _ -> LpAddr (S.ASym (N0, cz_of_int (rand_int r 3)))
let has_base = function LpNone -> false | LpAddr (S.AConst N0) -> false | _ -> true

let rand_unit ?(tame = false) r ~nr ~nl =
  (* tame: a unit that is meant to be written successfully (valid version, address size, low_pc, rule-obeying lists) *)
  let version = if tame then 2 + rand_int r 4 else match rand_int r 16 with 0 -> 1 | 1 -> 6 | 2 -> 0 | x -> 2 + (x land 3) in
  let asz = if tame then pick r [| 4; 8; 4; 8; 4; 8; 1; 2 |] else
    match rand_int r 16 with 0 -> 1 | 1 -> 2 | 2 -> 3 | 3 -> 0 | 4 -> 16 | 5 -> 9 | x -> if x land 1 = 0 then 4 else 8 in
  let fmt64 = rand_int r 3 = 0 in
  let lp = rand_lp ~tame r asz in
  let hb = has_base lp in
  let mk loc =
    let wild = (not tame) && rand_int r 3 = 0 in
    gen_list r ~loc ~version ~asz ~hb ~wild in
  let dup prev = if prev <> [] && rand_int r 3 = 0 then Some (pick r (Array.of_list prev)) else None in
  let rec lists loc k acc = if k = 0 then List.rev acc else
    let l = match dup acc with Some l -> l | None -> mk loc in lists loc (k - 1) (l :: acc) in
  let ll = lists true nl [] in
  let rl = List.map (List.map range_of_loc) (lists false nr []) in
  { version; fmt64; asz; lp; rl; ll }

(* ---- exhaustive small domain: one single-entry list, every kind x boundary values ---- *)
let small_domain ~loc (k : bool -> unit_in list -> unit) =
  List.iter (fun version ->
    List.iter (fun asz ->
      let m = amod asz in
      let vals = [ Z.zero; Z.one; Z.of_int 0x20; Z.sub m (Z.of_int 2); Z.pred m; u64 m; max64 ] in
      let vals = List.sort_uniq Z.compare vals in
      List.iter (fun lp ->
        let one ents =
          let u = if loc then { version; fmt64 = false; asz; lp; rl = []; ll = [ ents ] }
            else { version; fmt64 = false; asz; lp; rl = [ List.map range_of_loc ents ]; ll = [] } in
          k false [ u ] in
        let d = if loc then bytes_of_ints [ 0x9c ] else [] in
        List.iter (fun a ->
          List.iter (fun b ->
            one [ S.LOffsetPair (n_ a, n_ b, d) ];
            one [ S.LStartEnd (S.AConst (n_ a), S.AConst (n_ b), d) ];
            one [ S.LStartLength (S.AConst (n_ a), n_ b, d) ];
            one [ S.LBase (S.AConst (n_ a)); S.LOffsetPair (n_ b, n_ (u64 (Z.succ b)), d) ];
            one [ S.LBase (S.AConst (n_ a)); S.LStartEnd (S.AConst (n_ b), S.AConst (n_ (u64 (Z.succ b))), d) ]) vals;
          one [ S.LBase (S.AConst (n_ a)) ]) vals;
        one [];
        if loc then one [ S.LDefault d ])
        [ LpNone; LpAddr (S.AConst N0); LpAddr (S.AConst (n_of_int 0x1000)) ])
      [ 1; 2; 4; 8 ])
    [ 2; 3; 4; 5 ]

(* design item F8 and its relatives (marker clash), through the whole unit *)
let f8_family (k : bool -> unit_in list -> unit) =
  List.iter (fun version ->
    List.iter (fun asz ->
      let ones = n_ (Z.pred (amod asz)) in
      let lp1 = LpAddr (S.AConst (n_of_int 0x1000)) in
      let c x = n_of_int x in
      k false [ { version; fmt64 = false; asz; lp = lp1; ll = [];
                  rl = [ [ S.ROffsetPair (ones, c 0x20); S.ROffsetPair (c 0x30, c 0x40) ] ] } ];
      k false [ { version; fmt64 = false; asz; lp = LpNone; ll = [];
                  rl = [ [ S.RStartEnd (S.AConst ones, S.AConst (c 0x20)); S.RStartEnd (S.AConst (c 0x30), S.AConst (c 0x40)) ] ] } ];
      k false [ { version; fmt64 = false; asz; lp = LpNone; ll = [];
                  rl = [ [ S.RStartLength (S.AConst ones, c 0x21); S.RStartLength (S.AConst (c 0x30), c 0x10) ] ] } ];
      k false [ { version; fmt64 = false; asz; lp = lp1; rl = [];
                  ll = [ [ S.LOffsetPair (ones, c 0x20, bytes_of_ints [ 0x30; 0x31; 0x32; 0x33 ]);
                           S.LOffsetPair (c 0x30, c 0x40, bytes_of_ints [ 0x50 ]) ] ] } ];
      k false [ { version; fmt64 = false; asz; lp = LpNone; rl = [];
                  ll = [ [ S.LStartEnd (S.AConst ones, S.AConst (c 0x20), bytes_of_ints [ 0x30; 0x31 ]);
                           S.LStartEnd (S.AConst (c 0x30), S.AConst (c 0x40), bytes_of_ints [ 0x50 ]) ] ] } ])
      [ 1; 2; 4; 8 ])
    [ 2; 3; 4; 5 ]

(* the model is evaluated (and the case printed) only for the cases of this shard *)
let lazy_emit (emit : emit) (case : unit -> string) (f : unit -> string * string) =
  if Streams.mine () then begin
    let c = case () in let (d, r) = f () in emit c d r
  end else Streams.skip ()

let run_case stream emit be units =
  lazy_emit emit (fun () -> case_line stream be units) (fun () -> (eval true be units, eval false be units))

(* cases whose only purpose is the no-panic clause: the harness prints `nopanic` unless gimli panics *)
let nopanic_family r n (k : bool -> unit_in list -> unit) =
  let c x = n_of_int x in
  List.iter (fun version ->
    List.iter (fun asz ->
      let base = { version; fmt64 = false; asz; lp = LpNone; rl = []; ll = [] } in
      k false [ { base with rl = [ [ S.RStartLength (S.AConst (n_ max64), c 1) ] ] } ];
      k false [ { base with rl = [ [ S.RStartLength (S.AConst (c 1), n_ max64) ] ] } ];
      k false [ { base with rl = [ [ S.RStartLength (S.AConst (n_ (p2 63)), n_ (p2 63)) ] ] } ];
      k false [ { base with rl = [ [ S.RStartLength (S.ASym (N0, cz_of_z (Z.pred (p2 63))), c 1) ] ] } ];
      k false [ { base with rl = [ [ S.RStartLength (S.ASym (N0, cz_of_z (Z.neg (p2 63))), n_ max64) ] ] } ];
      k false [ { base with ll = [ [ S.LStartLength (S.AConst (n_ max64), c 1, []) ] ] } ];
      k false [ { base with ll = [ [ S.LStartLength (S.ASym (c 1, cz_of_z (Z.pred (p2 63))), c 1, []) ] ] } ];
      k false [ { base with rl = [ [ S.RBase (S.AConst (c 1)) ] ] } ];
      k false [ { base with ll = [ [ S.LBase (S.AConst (c 1)) ] ] } ])
      [ 0; 1; 2; 3; 4; 8; 9; 16; 31; 32; 33; 255 ])
    [ 2; 4; 5 ];
  for _ = 1 to n do
    let u = rand_unit r ~nr:(rand_int r 3) ~nl:(rand_int r 3) in
    k (rand_bool r) [ u ]
  done

let () =
  register "c16.rng" ~doc:"range lists through write::Unit (DW_AT_ranges), v2-5: section bytes, offsets, read back through read::Dwarf::attr_ranges"
    (fun ~seed ~n emit ->
      small_domain ~loc:false (fun be us -> run_case "c16.rng" emit be us);
      let r = mk_rng seed in
      for _ = 1 to n do
        let tame = rand_int r 5 < 3 in
        let u = rand_unit ~tame r ~nr:(1 + rand_int r 3) ~nl:0 in
        run_case "c16.rng" emit (rand_bool r) [ u ]
      done);
  register "c16.loc" ~doc:"location lists through write::Unit (DW_AT_location), v2-5: section bytes, offsets, read back through attr_locations"
    (fun ~seed ~n emit ->
      small_domain ~loc:true (fun be us -> run_case "c16.loc" emit be us);
      (* expression length boundaries: u16 length before v5 (65535 fits, 65536 is ValueTooLarge), ULEB in v5 *)
      List.iter (fun version ->
        List.iter (fun len ->
          let d = bytes_of_ints (List.init len (fun i -> i land 255)) in
          let u = { version; fmt64 = false; asz = 4; lp = LpNone; rl = [];
                    ll = [ [ S.LStartEnd (S.AConst (n_of_int 1), S.AConst (n_of_int 2), d) ] ] } in
          run_case "c16.loc" emit false [ u ]) [ 0; 1; 127; 128; 16383; 16384; 65535; 65536 ]) [ 4; 5 ];
      let r = mk_rng seed in
      for _ = 1 to n do
        let tame = rand_int r 5 < 3 in
        let u = rand_unit ~tame r ~nr:0 ~nl:(1 + rand_int r 3) in
        run_case "c16.loc" emit (rand_bool r) [ u ]
      done);
  register "c16.unit" ~doc:"1-3 units with range and location lists incl. duplicates, mixed versions: sections accumulate, equal lists share offsets"
    (fun ~seed ~n emit ->
      f8_family (fun be us -> run_case "c16.unit" emit be us);
      let r = mk_rng (seed + 77) in
      for _ = 1 to n do
        let nu = match rand_int r 4 with 0 -> 2 | 1 -> 3 | _ -> 1 in
        let tame = rand_int r 10 < 7 in
        let us = List.init nu (fun _ -> rand_unit ~tame r ~nr:(rand_int r 4) ~nl:(rand_int r 4)) in
        run_case "c16.unit" emit (rand_bool r) us
      done);
  register "c16.rej" ~doc:"lists the pre-v5 writers must reject (theorems rejects_unit_rng/_loc, rejects_bad_address_size): plain prefix, then an empty range / offset pair without base / address pair with base / entry beginning at the all-ones marker / StartLength sum that does not fit / default location; or an address size outside 1..8; expected = err (ListWrSpec.rejected)"
    (fun ~seed ~n emit ->
      let r = mk_rng (seed + 313) in
      let c x = n_of_int x in
      (* address sizes outside 1..8 with any non-empty table: UnsupportedWordSize before anything is written *)
      List.iter (fun asz ->
        List.iter (fun version ->
          List.iter (fun loc ->
            let l = gen_list r ~loc ~version ~asz ~hb:false ~wild:true in
            let u = if loc then { version; fmt64 = false; asz; lp = LpNone; rl = []; ll = [ l ] }
              else { version; fmt64 = false; asz; lp = LpNone; ll = []; rl = [ List.map range_of_loc l ] } in
            let exp = "err UnsupportedWordSize" in
            lazy_emit emit (fun () -> case_line "c16.rej" false [ u ]) (fun () ->
              if eval true false [ u ] <> exp then begin
                prerr_endline ("SELFCHECK FAILED (bad address size): " ^ case_line "c16.rej" false [ u ]); exit 3 end;
              (exp, exp))) [ false; true ]) [ 2; 3; 4 ]) [ 0; 9; 10; 16; 31; 32; 33; 64; 128; 255 ];
      let count = ref 0 in
      while !count < n + 400 do
        let loc = rand_bool r in
        let version = 2 + rand_int r 3 in
        let asz = pick r [| 1; 2; 4; 8; 4; 8 |] in
        let lp = match rand_int r 3 with 0 -> LpNone | 1 -> LpAddr (S.AConst N0) | _ -> LpAddr (S.AConst (c (1 + rand_int r 200))) in
        let hb0 = has_base lp in
        let pre = gen_list r ~loc ~version ~asz ~hb:hb0 ~wild:false in
        let pre = List.filter (fun x -> match x with S.LDefault _ -> false | _ -> true) pre in
        let hb = List.fold_left (fun h x -> h || S.is_base x) hb0 pre in
        let d = if loc then rand_data r else [] in
        let a = S.AConst (n_ (rand_fit r asz)) in
        let v = rand_val r asz in
        let ones = Z.pred (amod asz) in
        let bad = match rand_int r (if loc then 11 else 10) with
          | 0 -> S.LOffsetPair (n_ v, n_ v, d)
          | 1 -> S.LStartEnd (a, a, d)
          | 2 -> S.LStartLength ((if rand_int r 4 = 0 then S.ASym (c 1, cz_of_int 7) else a), N0, d)
          | 3 | 4 -> if hb then S.LStartEnd (a, S.AConst (n_ (rand_val r asz)), d)
                 else S.LOffsetPair (n_ v, n_ (if Z.equal v max64 then Z.pred v else Z.succ v), d)
          | 5 -> if hb then S.LStartLength (a, c (1 + rand_int r 9), d) else S.LOffsetPair (c 5, c 4, d)
          (* entries beginning at the all-ones marker *)
          | 6 -> if hb then S.LOffsetPair (n_ ones, n_ (Z.of_int (rand_int r 0x100)), d)
                 else S.LStartEnd (S.AConst (n_ ones), S.AConst (n_ (Z.of_int (rand_int r 0x100))), d)
          | 7 -> if hb then S.LOffsetPair (n_ ones, n_ (rand_val r asz), d)
                 else S.LStartLength (S.AConst (n_ ones), c (1 + rand_int r 0x100), d)
          (* sums that do not fit *)
          | 8 -> let b = rand_val r asz in
                 S.LStartLength (S.AConst (n_ b), n_ (u64 (Z.add (Z.sub (p2 64) b) (Z.of_int (rand_int r 0x40)))), d)
          | 9 -> (match rand_int r 3 with
                  | 0 -> S.LStartLength (S.ASym (c 2, cz_of_z (Z.pred (p2 63))), c (1 + rand_int r 9), d)
                  | 1 -> S.LStartLength (S.ASym (c 0, cz_of_int (rand_int r 9 - 4)), n_ (p2 63), d)
                  | _ -> S.LStartLength (S.ASym (c 0, cz_of_z (Z.neg (p2 63))), n_ max64, d))
          | _ -> S.LDefault d in
        let post = if rand_bool r then [] else gen_list r ~loc ~version ~asz ~hb ~wild:true in
        let l = pre @ [ bad ] @ post in
        let aszn = n_of_int asz in
        match S.rejected aszn hb0 l with
        | Some e when S.plain_until_reject aszn hb0 l ->
            incr count;
            let u = if loc then { version; fmt64 = rand_bool r; asz; lp; rl = []; ll = [ l ] }
              else { version; fmt64 = rand_bool r; asz; lp; ll = []; rl = [ List.map range_of_loc l ] } in
            let be = rand_bool r in
            let exp = "err " ^ Errnames.name e in
            lazy_emit emit (fun () -> case_line "c16.rej" be [ u ]) (fun () ->
              (* the model must agree with the theorem's value *)
              if eval true be [ u ] <> exp || eval false be [ u ] <> exp then begin
                prerr_endline ("SELFCHECK FAILED (rejects): " ^ case_line "c16.rej" be [ u ]); exit 3 end;
              (exp, exp))
        | _ -> ()
      done);
  register "c16.nopanic" ~doc:"no-panic oracle: StartLength sums at the u64/i64 boundary, every odd address size with a BaseAddress entry; expected is the fixed token"
    (fun ~seed ~n emit ->
      let r = mk_rng (seed + 991) in
      nopanic_family r n (fun be us ->
        lazy_emit emit (fun () -> case_line "c16.nopanic" be us) (fun () -> ("nopanic", "nopanic"))));
  register "c16.refs" ~doc:"oracle: location lists whose expressions carry entry references (call_ref / implicit_pointer / variable_value to DIEs of the same and of other units), 1-3 units of mixed versions and formats in one Dwarf::write; expected is the fixed token"
    (fun ~seed ~n emit ->
      let r = mk_rng (seed + 1777) in
      let gen_case ~nunits ~pickv ~force_op =
        let b = Buffer.create 256 in
        let add x = Buffer.add_char b ' '; Buffer.add_string b (string_of_int x) in
        Buffer.add_string b "c16.refs"; add (rand_int r 2); add nunits;
        for _ = 1 to nunits do
          let version = pickv () in
          add version; add (rand_int r 2); add (if rand_bool r then 4 else 8);
          add (1 + rand_int r 3);
          let nlists = 1 + rand_int r 2 in
          add nlists;
          for _ = 1 to nlists do
            let ne = 1 + rand_int r 3 in
            add ne;
            let pos = ref (1 + rand_int r 16) in
            for _ = 1 to ne do
              let kind = if version >= 5 then 1 + rand_int r 4 else 1 in
              let bg = !pos in
              let en = bg + 1 + rand_int r 64 in
              pos := en + rand_int r 8;
              add kind; add bg; add en;
              let nops = 1 + rand_int r 3 in
              add nops;
              for j = 1 to nops do
                let op = if j = 1 && force_op >= 0 then force_op else rand_int r 4 in
                add op; add (rand_int r 3); add (rand_int r 3);
                add (if op = 1 then (rand_int r 400) - 200 else rand_int r 300)
              done
            done
          done
        done;
        Buffer.contents b in
      let out c = if Streams.mine () then emit c "ok" "ok" else Streams.skip () in
      (* every operation x every version pair of (referring unit, other unit) x reference direction *)
      List.iter (fun v1 -> List.iter (fun v2 -> List.iter (fun op ->
        let k = ref 0 in
        out (gen_case ~nunits:2 ~pickv:(fun () -> incr k; if !k = 1 then v1 else v2) ~force_op:op);
        out (gen_case ~nunits:1 ~pickv:(fun () -> v1) ~force_op:op))
        [ 0; 1; 2 ]) [ 2; 3; 4; 5 ]) [ 2; 3; 4; 5 ];
      for _ = 1 to n do
        out (gen_case ~nunits:(1 + rand_int r 3) ~pickv:(fun () -> 2 + rand_int r 4) ~force_op:(-1))
      done)
let init () = ()
