(* s_c08.ml — streams for C08 (range lists, location lists, indexed tables, DIE range helpers).
   Model side: extracted ListsRd (model) and ListSpec (spec encoders + resolution). *)
open Conv
open Streams
open ListSpec

(* `Streams.both` evaluates the model for every case, also for the cases the driver then drops because they
   belong to another shard (`gv-model gen <stream> <seed> <n> <shard> <nshards>` keeps case i iff
   i mod nshards = shard, counting every emit). The model evaluation dominates here, so mirror that
   counter and hand the driver empty expectations for the cases it is going to drop anyway. If this ever
   got out of step with the driver, the empty expectations would show up as mismatches, not pass silently. *)
let shard, nshards =
  match Array.to_list Sys.argv with
  | _ :: "gen" :: _ :: _ :: _ :: a :: b :: _ -> (try (int_of_string a, int_of_string b) with _ -> (0, 1))
  | _ -> (0, 1)
let emitted = ref 0
let both_l (emit : Streams.emit) (case : unit -> string) (f : bool -> string) =
  let i = !emitted in
  incr emitted;
  ignore i; if Streams.mine () then emit (case ()) (f true) (f false) else emit "" "" ""
let both emit case f = both_l emit (fun () -> case) f

let p2 k = Z.shift_left Z.one k
let zmax64 = Z.pred (p2 64)
let amodz sz = p2 (8 * sz)
let nz = n_of_z
let sn = string_of_n
let b01 b = if b then "1" else "0"

let mkcfg be asize version = { c_be = be; c_asize = n_of_int asize; c_version = n_of_int version }

(* ---------------------------------------------------------------- printing (canonical, = harness) *)
let pr_events (pr : 'a -> string) (r : 'a ListsRd.ev list Res.res) : string =
  match r with
  | Res.Ok evs ->
      "ok" ^ String.concat "" (List.map (function
        | ListsRd.EvItem a -> " " ^ pr a
        | ListsRd.EvErr e -> " e " ^ Errnames.name e) evs)
  | Res.Err e -> "err " ^ Errnames.name e
  | Res.Panic -> "panic"
  | Res.OutOfFuel -> "outoffuel"

let pr_range (b, e) = Printf.sprintf "r %s %s" (sn b) (sn e)
let pr_locrange ((b, e), d) = Printf.sprintf "r %s %s %s" (sn b) (sn e) (hex_of_bytes d)

let pr_lent = function
  | LPair (b, e) -> Printf.sprintf "pair %s %s" (sn b) (sn e)
  | LBase a -> "base " ^ sn a
  | LBasex i -> "basex " ^ sn i
  | LStartxEndx (i, j) -> Printf.sprintf "sxex %s %s" (sn i) (sn j)
  | LStartxLength (i, l) -> Printf.sprintf "sxlen %s %s" (sn i) (sn l)
  | LOffsetPair (b, e) -> Printf.sprintf "offp %s %s" (sn b) (sn e)
  | LDefault -> "dflt"
  | LStartEnd (b, e) -> Printf.sprintf "se %s %s" (sn b) (sn e)
  | LStartLength (b, l) -> Printf.sprintf "sl %s %s" (sn b) (sn l)
let pr_lloc (e, d) =
  match e with
  | LBase _ | LBasex _ -> pr_lent e
  | _ -> pr_lent e ^ " " ^ hex_of_bytes d

(* ---------------------------------------------------------------- value generators *)
(* boundary-biased address of sz bytes *)
let baddr r sz : Z.t =
  let m = amodz sz in
  let small () = Z.of_int (rand_int r 300) in
  let v = match rand_int r 14 with
    | 0 -> Z.zero | 1 -> Z.one | 2 -> Z.of_int 2
    | 3 -> Z.pred m | 4 -> Z.sub m (Z.of_int 2) | 5 -> Z.sub m (Z.of_int 3)
    | 6 -> Z.shift_right m 1 | 7 -> Z.pred (Z.shift_right m 1)
    | 8 | 9 -> small ()
    | 10 -> Z.sub m (Z.succ (small ()))
    | 11 -> Z.of_int (0x1000 * (1 + rand_int r 15))
    | _ -> rand_z64 r in
  Z.erem v m

(* boundary-biased u64 offset / length (ULEB operand); negative offsets = large values *)
let boff r sz : Z.t =
  let m = amodz sz in
  let small () = Z.of_int (rand_int r 300) in
  let v = match rand_int r 16 with
    | 0 -> Z.zero | 1 -> Z.one
    | 2 -> Z.pred m | 3 -> m | 4 -> Z.sub m (Z.of_int 2)
    | 5 -> zmax64 | 6 -> Z.pred zmax64
    | 7 -> Z.sub (p2 64) (Z.succ (small ()))
    | 8 -> Z.sub m (Z.succ (small ()))
    | 9 -> Z.shift_right m 1
    | 10 | 11 | 12 | 13 -> small ()
    | 14 -> Z.of_int (0x100 * (1 + rand_int r 255))
    | _ -> rand_z64 r in
  Z.logand v zmax64

let extreme_index r : Z.t =
  match rand_int r 8 with
  | 0 -> p2 32 | 1 -> p2 61 | 2 -> zmax64 | 3 -> p2 63 | 4 -> Z.pred (p2 32)
  | 5 -> p2 60 | 6 -> Z.succ (p2 61) | _ -> Z.of_int (7 + rand_int r 1000)

let bytes_of_zs sz be (l : Z.t list) : Byte0.byte list =
  List.concat_map (fun v -> Prim.enc_un (nat_of_int sz) be (nz v)) l

let rand_blist r n = bytes_of_ints (rand_bytes r n)

(* ---------------------------------------------------------------- list cases *)
type lcase = {
  be : bool; asize : int; version : int; dwo : bool;
  base : Z.t; addr_base : int; offset : Z.t Lazy.t;
  debug_addr : Byte0.byte list;
  (* lazy: every shard draws every case (one PRNG stream) but only encodes the cases it keeps *)
  legacy : Byte0.byte list Lazy.t;     (* .debug_ranges / .debug_loc *)
  v5 : Byte0.byte list Lazy.t;         (* .debug_rnglists / .debug_loclists *)
  rents : lent list option;     (* the well-formed entries the bytes were generated from *)
  lents : lloc list option;
}

let sizes = [| 1; 2; 4; 8 |]
let bad_sizes = [| 0; 3; 5; 7; 9; 16; 31; 32; 33; 255 |]

let gen_table r sz be =
  let k = rand_int r 6 in
  let addr_base = match rand_int r 4 with 0 -> 0 | 1 -> 8 | _ -> rand_int r 12 in
  let entries = List.init k (fun _ -> baddr r sz) in
  let tbl = rand_blist r addr_base @ bytes_of_zs sz be entries in
  (k, addr_base, tbl)

let gen_index r ~wf k : Z.t =
  if wf then Z.of_int (rand_int r k)
  else match rand_int r 10 with
    | 0 -> Z.of_int k | 1 -> Z.of_int (k + 1) | 2 | 3 -> extreme_index r
    | _ -> Z.of_int (rand_int r (k + 1))

let gen_data r version ~wf : Byte0.byte list =
  ignore version; ignore wf;
  let n = match rand_int r 8 with 0 -> 0 | 1 -> 1 | 2 -> 130 | _ -> rand_int r 6 in
  rand_blist r n

(* one abstract entry; [loc] allows LDefault; [bare] = pair format (LPair / LBase only) *)
let gen_entry r ~wf ~bare ~loc sz k version : lent =
  if bare then begin
    if rand_int r 4 = 0 then LBase (nz (baddr r sz))
    else
      let rec pick_pair () =
        let b = (if rand_int r 3 = 0 then baddr r sz else Z.erem (Z.of_int (rand_int r 600)) (amodz sz)) in
        let e = (match rand_int r 4 with 0 -> baddr r sz | 1 -> b | _ -> Z.erem (Z.add b (Z.of_int (rand_int r 300))) (amodz sz)) in
        if (Z.sign b = 0 && Z.sign e = 0) || Z.equal b (Z.pred (amodz sz)) then pick_pair () else LPair (nz b, nz e) in
      pick_pair ()
  end else begin
    let nk = if loc then 9 else 8 in
    let rec go () =
      match rand_int r nk with
      | 0 -> LBase (nz (baddr r sz))
      | 1 -> if wf && k = 0 then go () else LBasex (nz (gen_index r ~wf k))
      | 2 -> if wf && k = 0 then go () else LStartxEndx (nz (gen_index r ~wf k), nz (gen_index r ~wf k))
      | 3 -> if wf && k = 0 then go () else
          let l = if version >= 5 || not loc then boff r sz else Z.logand (boff r sz) (Z.pred (p2 32)) in
          LStartxLength (nz (gen_index r ~wf k), nz l)
      | 4 | 5 ->
          let b = boff r sz in
          let e = (match rand_int r 4 with 0 -> boff r sz | 1 -> b | _ -> Z.logand (Z.add b (Z.of_int (1 + rand_int r 300))) zmax64) in
          LOffsetPair (nz b, nz e)
      | 6 ->
          let b = baddr r sz in
          let e = (match rand_int r 4 with 0 -> baddr r sz | 1 -> b | _ -> Z.erem (Z.add b (Z.of_int (1 + rand_int r 300))) (amodz sz)) in
          LStartEnd (nz b, nz e)
      | 7 -> LStartLength (nz (baddr r sz), nz (boff r sz))
      | _ -> LDefault in
    go ()
  end

let gen_case r ~wf ~loc : lcase =
  let be = rand_bool r in
  let sz = pick r sizes in
  let version = if wf then 2 + rand_int r 4 else pick r [| 2; 3; 4; 5; 5; 5; 4; 6; 0; 1; 65535 |] in
  let dwo = loc && rand_int r 3 = 0 in
  let c = mkcfg be sz version in
  let (k, addr_base, debug_addr) = gen_table r sz be in
  let bare = version <= 4 && not dwo in
  let n = rand_int r 7 in
  let ents = List.init n (fun _ -> gen_entry r ~wf ~bare ~loc sz k version) in
  let lents = List.map (fun e -> (e, if has_data e then gen_data r version ~wf else [])) ents in
  (* the well-formed streams only keep entries that satisfy the spec's own well-formedness predicate *)
  let lents = if not wf then lents else
      List.filter (fun x -> if loc then (if bare then wf_locpair c x else wf_lle c x)
                            else (if bare then wf_pair c (fst x) else wf_rle c (fst x))) lents in
  let ents = List.map fst lents in
  let body = lazy (
    if loc then (if bare then enc_loc c lents else enc_loclist c lents)
    else (if bare then enc_ranges c ents else enc_rnglist c ents)) in
  let off = rand_int r 5 in
  let pre = rand_blist r off in
  let post = rand_blist r (rand_int r 4) in
  let sect = lazy (pre @ Lazy.force body @ post) in
  let decoy = Lazy.from_val (rand_blist r (rand_int r 12)) in
  let base = match rand_int r 4 with 0 -> Z.zero | _ -> baddr r sz in
  { be; asize = sz; version; dwo; base; addr_base; offset = Lazy.from_val (Z.of_int off); debug_addr;
    legacy = (if version <= 4 then sect else decoy);
    v5 = (if version <= 4 then decoy else sect);
    rents = (if loc then None else Some ents);
    lents = (if loc then Some lents else None) }

(* field-aware damage for the model streams *)
let overlong = [| [0xff;0xff;0xff;0xff;0xff;0xff;0xff;0xff;0xff;0x01]; [0xff;0xff;0xff;0xff;0xff;0xff;0xff;0xff;0xff;0x02];
                  [0x80;0x80;0x80;0x80;0x80;0x80;0x80;0x80;0x80;0x80;0x00]; [0x80;0x00]; [0xff;0x7f]; [0x80] |]
(* all random choices are drawn up front (so the PRNG stream does not depend on the bytes) *)
let mutation r : Byte0.byte list -> Byte0.byte list =
  let kind = rand_int r 7 in
  let p = rand_int r 1000003 in
  let b1 = byte_of_int (rand_int r 256) in
  let b2 = byte_of_int (pick r [| 0; 0xff; 0x80; 0x7f; 9; 8; 0xfe |]) in
  let ov = bytes_of_ints (pick r overlong) in
  let extra = rand_blist r (1 + rand_int r 6) in
  fun l ->
    let a = Array.of_list l in
    let n = Array.length a in
    match kind with
    | 0 -> Array.to_list (Array.sub a 0 (p mod (n + 1)))                           (* truncate *)
    | 1 when n > 0 -> a.(p mod n) <- b1; Array.to_list a
    | 2 when n > 0 -> a.(p mod n) <- b2; Array.to_list a
    | 3 -> let i = p mod (n + 1) in                                               (* splice an extreme LEB *)
        Array.to_list (Array.sub a 0 i) @ ov @ Array.to_list (Array.sub a i (n - i))
    | 4 when n > 1 -> let i = p mod n in                                           (* delete one byte *)
        Array.to_list (Array.sub a 0 i) @ Array.to_list (Array.sub a (i + 1) (n - i - 1))
    | 5 -> l @ extra
    | _ -> l
let mutate_bytes r (l : Byte0.byte list) : Byte0.byte list = mutation r l
let lmap f (x : 'a Lazy.t) = lazy (f (Lazy.force x))

let damage r (cs : lcase) : lcase =
  let cs = if rand_int r 3 > 0 then
      (let m = mutation r in
       if cs.version <= 4 then { cs with legacy = lmap m cs.legacy } else { cs with v5 = lmap m cs.v5 })
    else cs in
  let cs = if rand_int r 10 = 0 then { cs with asize = pick r bad_sizes } else cs in
  let cs = if rand_int r 10 = 0 then { cs with debug_addr = mutate_bytes r cs.debug_addr } else cs in
  let cs = if rand_int r 12 = 0 then { cs with addr_base = pick r [| 0; 1; 200; 7 |] } else cs in
  let cs = if rand_int r 10 = 0 then
      (let k = rand_int r 5 in
       let small = rand_int r 8 in
       let len () = List.length (Lazy.force (if cs.version <= 4 then cs.legacy else cs.v5)) in
       { cs with offset = lazy (match k with
          | 0 -> Z.of_int (len ())
          | 1 -> Z.of_int (1 + len ())
          | 2 -> zmax64 | 3 -> p2 63 | _ -> Z.of_int small) })
    else cs in
  { cs with rents = None; lents = None }

(* arbitrary bytes, opcode-biased *)
let gen_bytes_case r ~loc : lcase =
  let be = rand_bool r in
  let sz = if rand_int r 12 = 0 then pick r bad_sizes else pick r sizes in
  let version = pick r [| 2; 3; 4; 5; 5; 5; 5; 4 |] in
  let dwo = loc && rand_int r 3 = 0 in
  let (_, addr_base, debug_addr) = gen_table r (if sz >= 1 && sz <= 8 then sz else 4) be in
  let n = rand_int r 40 in
  let sect = List.init n (fun _ ->
    match rand_int r 6 with
    | 0 -> rand_int r 10 | 1 -> pick r [| 0; 1; 2; 0xff; 0xfe; 0x80; 0x7f |] | 2 -> rand_int r 4
    | _ -> rand_int r 256) |> bytes_of_ints in
  { be; asize = sz; version; dwo; base = baddr r (if sz >= 1 && sz <= 8 then sz else 4); addr_base;
    offset = Lazy.from_val (Z.of_int (if n > 0 && rand_int r 4 = 0 then rand_int r n else 0)); debug_addr;
    legacy = Lazy.from_val sect; v5 = Lazy.from_val sect; rents = None; lents = None }

let lctx_of (cs : lcase) = { ListsRd.x_addr = cs.debug_addr; x_addr_base = n_of_int cs.addr_base }
let cfg_of (cs : lcase) = mkcfg cs.be cs.asize cs.version

let rng_line name (cs : lcase) =
  Printf.sprintf "%s %s %d %d %s %d %s %s %s %s" name (b01 cs.be) cs.asize cs.version (Z.to_string cs.base)
    cs.addr_base (Z.to_string (Lazy.force cs.offset)) (hex_of_bytes cs.debug_addr) (hex_of_bytes (Lazy.force cs.legacy)) (hex_of_bytes (Lazy.force cs.v5))
let loc_line name (cs : lcase) =
  Printf.sprintf "%s %s %d %d %s %s %d %s %s %s %s" name (b01 cs.be) cs.asize cs.version (b01 cs.dwo) (Z.to_string cs.base)
    cs.addr_base (Z.to_string (Lazy.force cs.offset)) (hex_of_bytes cs.debug_addr) (hex_of_bytes (Lazy.force cs.legacy)) (hex_of_bytes (Lazy.force cs.v5))
let rraw_line name (cs : lcase) =
  Printf.sprintf "%s %s %d %d %s %s %s" name (b01 cs.be) cs.asize cs.version (Z.to_string (Lazy.force cs.offset))
    (hex_of_bytes (Lazy.force cs.legacy)) (hex_of_bytes (Lazy.force cs.v5))
let lraw_line name (cs : lcase) =
  Printf.sprintf "%s %s %d %d %s %s %s %s" name (b01 cs.be) cs.asize cs.version (b01 cs.dwo) (Z.to_string (Lazy.force cs.offset))
    (hex_of_bytes (Lazy.force cs.legacy)) (hex_of_bytes (Lazy.force cs.v5))

let model_rng dbg cs =
  pr_events pr_range (ListsRd.ranges_all dbg (cfg_of cs) (lctx_of cs) (Lazy.force cs.legacy) (Lazy.force cs.v5) (nz (Lazy.force cs.offset)) (nz cs.base))
let model_loc dbg cs =
  pr_events pr_locrange (ListsRd.locations_all dbg (cfg_of cs) cs.dwo (lctx_of cs) (Lazy.force cs.legacy) (Lazy.force cs.v5) (nz (Lazy.force cs.offset)) (nz cs.base))
let model_rraw dbg cs =
  pr_events pr_lent (ListsRd.raw_ranges_all dbg (cfg_of cs) (Lazy.force cs.legacy) (Lazy.force cs.v5) (nz (Lazy.force cs.offset)))
let model_lraw dbg cs =
  pr_events pr_lloc (ListsRd.raw_locations_all dbg (cfg_of cs) cs.dwo (Lazy.force cs.legacy) (Lazy.force cs.v5) (nz (Lazy.force cs.offset)))

(* expected value computed from the SPEC (ListSpec.resolve_rng, resolve_loc); the model must agree (theorem resolve_refines) *)
let spec_tbl cs = addr_table cs.be (n_of_int cs.asize) cs.debug_addr (n_of_int cs.addr_base)
let spec_rng cs =
  match cs.rents with
  | None -> None
  | Some es ->
    (match resolve_rng (n_of_int cs.asize) (spec_tbl cs) (nz cs.base) es with
     | Some rs -> Some ("ok" ^ String.concat "" (List.map (fun x -> " " ^ pr_range x) rs))
     | None -> None)
let spec_loc cs =
  match cs.lents with
  | None -> None
  | Some es ->
    (match resolve_loc (n_of_int cs.asize) (spec_tbl cs) (nz cs.base) es with
     | Some rs -> Some ("ok" ^ String.concat "" (List.map (fun x -> " " ^ pr_locrange x) rs))
     | None -> None)

let emit_spec emit (line : unit -> string) (spec : unit -> string option) model =
  both_l emit line (fun dbg ->
    match spec () with
    | None -> "SPEC-UNDEFINED"
    | Some spec ->
      let m = model dbg in
      if m = spec then spec else "SPEC-MODEL-DISAGREE spec=[" ^ spec ^ "] model=[" ^ m ^ "]")

(* exhaustive small domain of section contents for the arbitrary-bytes streams *)
let small_sections (k : int list -> unit) =
  k [];
  for a = 0 to 255 do k [a] done;
  for a = 0 to 255 do for b = 0 to 255 do k [a; b] done done;
  let alpha = [| 0; 1; 2; 0x7f; 0x80; 0xfd; 0xfe; 0xff |] in
  for op = 0 to 9 do
    for len = 2 to 4 do
      let total = int_of_float (8. ** float_of_int len) in
      for x = 0 to total - 1 do
        let rec digits i x acc = if i = 0 then acc else digits (i - 1) (x / 8) (alpha.(x mod 8) :: acc) in
        k (op :: digits len x [])
      done
    done
  done

let fixed_addr_table be = bytes_of_zs 1 be (List.map Z.of_int [0x10; 0xfe; 0x00; 0xff; 0x20])

let () =
  (* ---------------- resolved range lists *)
  register "c08.rng" ~doc:"RangeLists::ranges on well-formed lists (every kind, boundary addresses, all address sizes, versions 2-5): expected = ListSpec.resolve_rng"
    (fun ~seed ~n emit ->
      let r = mk_rng seed in
      for _ = 1 to n do
        let cs = gen_case r ~wf:true ~loc:false in
        emit_spec emit (fun () -> rng_line "c08.rng" cs) (fun () -> spec_rng cs) (fun dbg -> model_rng dbg cs)
      done);
  register "c08.rngm" ~doc:"RangeLists::ranges on damaged lists: bad indices, truncations, spliced LEBs, invalid address sizes/versions/offsets"
    (fun ~seed ~n emit ->
      let r = mk_rng (seed + 101) in
      for _ = 1 to n do
        let cs = damage r (gen_case r ~wf:(rand_bool r) ~loc:false) in
        both_l emit (fun () -> rng_line "c08.rngm" cs) (fun dbg -> model_rng dbg cs)
      done);
  register "c08.rngb" ~doc:"RangeLists::ranges on arbitrary bytes (exhaustive: all sections of <= 2 bytes and opcode x 8-letter alphabet up to 5 bytes, address size 1, v5 and v4); harness checks begin<end && begin<tombstone on every yielded range"
    (fun ~seed ~n emit ->
      List.iter (fun version ->
        small_sections (fun l ->
          let sect = bytes_of_ints l in
          let cs = { be = false; asize = 1; version; dwo = false; base = Z.of_int 0x10; addr_base = 0; offset = Lazy.from_val Z.zero;
                     debug_addr = fixed_addr_table false; legacy = Lazy.from_val sect; v5 = Lazy.from_val sect; rents = None; lents = None } in
          both_l emit (fun () -> rng_line "c08.rngb" cs) (fun dbg -> model_rng dbg cs))) [5; 4];
      let r = mk_rng (seed + 202) in
      for _ = 1 to n do
        let cs = gen_bytes_case r ~loc:false in
        both_l emit (fun () -> rng_line "c08.rngb" cs) (fun dbg -> model_rng dbg cs)
      done);
  (* ---------------- resolved location lists *)
  register "c08.loc" ~doc:"LocationLists::locations / locations_dwo on well-formed lists (DW_LLE, legacy pairs, GNU split-DWARF v4 layout): expected = ListSpec.resolve_loc"
    (fun ~seed ~n emit ->
      let r = mk_rng (seed + 303) in
      for _ = 1 to n do
        let cs = gen_case r ~wf:true ~loc:true in
        emit_spec emit (fun () -> loc_line "c08.loc" cs) (fun () -> spec_loc cs) (fun dbg -> model_loc dbg cs)
      done);
  register "c08.locm" ~doc:"LocationLists::locations(_dwo) on damaged lists"
    (fun ~seed ~n emit ->
      let r = mk_rng (seed + 404) in
      for _ = 1 to n do
        let cs = damage r (gen_case r ~wf:(rand_bool r) ~loc:true) in
        both_l emit (fun () -> loc_line "c08.locm" cs) (fun dbg -> model_loc dbg cs)
      done);
  register "c08.locb" ~doc:"LocationLists::locations(_dwo) on arbitrary bytes (same exhaustive small domain x {v5, v4 pairs, v4 dwo}); harness checks every yielded range"
    (fun ~seed ~n emit ->
      List.iter (fun (version, dwo) ->
        small_sections (fun l ->
          let sect = bytes_of_ints l in
          let cs = { be = false; asize = 1; version; dwo; base = Z.of_int 0x10; addr_base = 0; offset = Lazy.from_val Z.zero;
                     debug_addr = fixed_addr_table false; legacy = Lazy.from_val sect; v5 = Lazy.from_val sect; rents = None; lents = None } in
          both_l emit (fun () -> loc_line "c08.locb" cs) (fun dbg -> model_loc dbg cs))) [(5, false); (4, false); (4, true)];
      let r = mk_rng (seed + 505) in
      for _ = 1 to n do
        let cs = gen_bytes_case r ~loc:true in
        both_l emit (fun () -> loc_line "c08.locb" cs) (fun dbg -> model_loc dbg cs)
      done);
  (* ---------------- raw iteration *)
  register "c08.rraw" ~doc:"RangeLists::raw_ranges: well-formed lists of every kind read back as exactly the encoded entries (expected = the entries)"
    (fun ~seed ~n emit ->
      let r = mk_rng (seed + 606) in
      for _ = 1 to n do
        let cs = gen_case r ~wf:true ~loc:false in
        let s () = Some ("ok" ^ String.concat "" (List.map (fun e -> " " ^ pr_lent e) (Option.get cs.rents))) in
        emit_spec emit (fun () -> rraw_line "c08.rraw" cs) s (fun dbg -> model_rraw dbg cs)
      done);
  register "c08.lraw" ~doc:"LocationLists::raw_locations(_dwo): well-formed lists read back as exactly the encoded entries"
    (fun ~seed ~n emit ->
      let r = mk_rng (seed + 707) in
      for _ = 1 to n do
        let cs = gen_case r ~wf:true ~loc:true in
        let s () = Some ("ok" ^ String.concat "" (List.map (fun e -> " " ^ pr_lloc e) (Option.get cs.lents))) in
        emit_spec emit (fun () -> lraw_line "c08.lraw" cs) s (fun dbg -> model_lraw dbg cs)
      done);
  register "c08.rawm" ~doc:"raw_ranges / raw_locations(_dwo) on damaged lists and arbitrary bytes (stop-after-error, unknown opcodes, truncation)"
    (fun ~seed ~n emit ->
      let r = mk_rng (seed + 1111) in
      for i = 1 to n do
        let loc = i land 1 = 0 in
        let cs = if i mod 4 < 2 then damage r (gen_case r ~wf:(rand_bool r) ~loc) else gen_bytes_case r ~loc in
        if loc then both_l emit (fun () -> lraw_line "c08.lraw" cs) (fun dbg -> model_lraw dbg cs)
        else both_l emit (fun () -> rraw_line "c08.rraw" cs) (fun dbg -> model_rraw dbg cs)
      done);
  (* ---------------- indexed tables *)
  register "c08.tbl" ~doc:"get_offset (rnglists, loclists) / get_str_offset / get_address: extreme indices and bases; every address size 0..255"
    (fun ~seed ~n emit ->
      let case kind be p base index sect =
        let line = Printf.sprintf "c08.tbl %s %s %d %s %s %s" kind (b01 be) p (Z.to_string base) (Z.to_string index) (hex_of_bytes sect) in
        both emit line (fun _ ->
          show_res sn (match kind with
            | "ro" | "lo" -> ListsRd.get_offset be (p = 1) sect (nz base) (nz index)
            | "so" -> ListsRd.get_str_offset be (p = 1) sect (nz base) (nz index)
            | _ -> ListsRd.get_address be sect (n_of_int p) (nz base) (nz index))) in
      (* every address size with a 3-entry table, indices 0..3 and the multiplication boundary *)
      for asize = 0 to 255 do
        List.iter (fun be ->
          let sect = bytes_of_ints (List.init 24 (fun i -> (asize * 5 + i * 29 + 3) land 255)) in
          List.iter (fun idx -> case "ad" be asize Z.zero idx sect)
            [Z.zero; Z.one; Z.of_int 2; Z.of_int 3; Z.of_int 24; zmax64;
             (if asize = 0 then p2 63 else Z.min zmax64 (Z.div (p2 64) (Z.of_int asize)));
             (if asize = 0 then p2 62 else Z.pred (Z.div (p2 64) (Z.of_int asize)))];
          case "ad" be asize (Z.of_int 24) Z.zero sect; case "ad" be asize (Z.of_int 25) Z.zero sect) [false; true]
      done;
      let r = mk_rng (seed + 808) in
      for _ = 1 to n do
        let be = rand_bool r in
        let kind = pick r [| "ro"; "lo"; "so"; "ad"; "ad" |] in
        let fmt64 = rand_bool r in
        let asize = if rand_int r 10 = 0 then pick r bad_sizes else pick r sizes in
        let w = if kind = "ad" then asize else if fmt64 then 8 else 4 in
        let wz = if w >= 1 && w <= 8 then w else 4 in
        let count = rand_int r 6 in
        let pad = match rand_int r 3 with 0 -> 0 | 1 -> 12 | _ -> rand_int r 20 in
        let words = List.init count (fun _ ->
          match rand_int r 6 with
          | 0 -> Z.pred (amodz wz) | 1 -> Z.zero | 2 -> Z.sub (amodz wz) (Z.of_int (1 + rand_int r 40))
          | _ -> Z.erem (rand_z64 r) (amodz wz)) in
        let sect = rand_blist r pad @ bytes_of_zs wz be words @ rand_blist r (rand_int r 3) in
        let len = List.length sect in
        let base = match rand_int r 12 with
          | 0 -> Z.of_int len | 1 -> Z.of_int (len + 1) | 2 -> zmax64 | 3 -> p2 63 | 4 -> Z.zero
          | _ -> Z.of_int pad in
        let index = match rand_int r 12 with
          | 0 -> Z.of_int count | 1 -> Z.of_int (count + 1) | 2 -> p2 32 | 3 -> p2 61 | 4 -> zmax64
          | 5 -> Z.min zmax64 (Z.div (p2 64) (Z.of_int (max w 1))) | 6 -> Z.pred (Z.div (p2 64) (Z.of_int (max w 1)))
          | 7 -> Z.zero | 8 -> Z.one
          | _ -> Z.of_int (rand_int r (count + 1)) in
        case kind be (if kind = "ad" then asize else if fmt64 then 1 else 0) base index sect
      done);
  (* ---------------- DIE / unit ranges through Dwarf *)
  let at_low = 0x11 and at_high = 0x12 and at_ranges = 0x55 and at_loc = 0x02 and at_other = 0x3b in
  let f_addr = 0x01 and f_data2 = 0x05 and f_data4 = 0x06 and f_data8 = 0x07 and f_data1 = 0x0b and f_sdata = 0x0d
  and f_udata = 0x0f and f_secoff = 0x17 and f_addrx = 0x1b and f_loclistx = 0x22 and f_rnglistx = 0x23 in
  let leb z = Leb.write_uleb128 (nz z) |> (function Res.Ok b -> b | _ -> failwith "uleb") in
  let sleb z = Leb.write_sleb128 (cz_of_z z) |> (function Res.Ok b -> b | _ -> failwith "sleb") in
  register "c08.die" ~doc:"Dwarf::die_ranges + unit_ranges on a one-DIE unit: low_pc/high_pc(address|constant)/ranges combinations, every form, boundary values (low + size overflow), dwo/non-dwo, versions 2-5, both formats"
    (fun ~seed ~n emit ->
      let r = mk_rng (seed + 909) in
      for _ = 1 to n do
        let be = rand_bool r in
        let sz = pick r sizes in
        let version = 2 + rand_int r 4 in
        let fmt64 = rand_int r 4 = 0 in
        let dwo = rand_int r 3 = 0 in
        let c = mkcfg be sz version in
        let (k, addr_base, debug_addr) = gen_table r sz be in
        (* a list in the section selected by the version *)
        let bare = version <= 4 in
        let ents = List.init (rand_int r 4) (fun _ -> gen_entry r ~wf:true ~bare ~loc:false sz k version) in
        let body = if bare then enc_ranges c ents else enc_rnglist c ents in
        let w = if fmt64 then 8 else 4 in
        (* rnglists: [pad][offset array of 2 words][list]; offsets relative to rnglists_base = pad *)
        let pad = rand_int r 4 in
        let lists_sect = rand_blist r pad @ bytes_of_zs w be [Z.of_int (2 * w); Z.of_int (2 * w + 1)] @ body in
        let list_off = pad + 2 * w in
        let rnglists_base = match rand_int r 5 with 0 -> 0 | 1 -> rand_int r 6 | _ -> pad in
        let low_pc = if rand_bool r then Z.zero else baddr r sz in
        let nattr = rand_int r 5 in
        let attrs = List.init nattr (fun _ ->
          match rand_int r 9 with
          | 0 | 1 ->
              (match rand_int r 6 with
               | 0 -> (at_low, f_addrx, leb (gen_index r ~wf:(rand_int r 4 > 0) (max k 1)),
                       fun i -> ListsRd.AvAddrx i), `Leb
               | 1 -> (at_low, f_data1, bytes_of_ints [rand_int r 256], fun _ -> ListsRd.AvOther), `None
               | _ -> (at_low, f_addr, [], fun a -> ListsRd.AvAddr a), `Addr)
          | 2 | 3 | 4 ->
              (match rand_int r 9 with
               | 0 -> (at_high, f_addr, [], (fun a -> ListsRd.AvAddr a)), `Addr
               | 1 -> (at_high, f_addrx, [], (fun i -> ListsRd.AvAddrx i)), `Leb
               | 2 -> (at_high, f_data1, [], (fun v -> ListsRd.AvUdata v)), `Fixed 1
               | 3 -> (at_high, f_data2, [], (fun v -> ListsRd.AvUdata v)), `Fixed 2
               | 4 -> (at_high, f_data4, [], (fun v -> ListsRd.AvUdata v)), `Fixed 4
               | 5 -> (at_high, f_data8, [], (fun v -> ListsRd.AvUdata v)), `Fixed 8
               | 6 -> (at_high, f_sdata, [], (fun v -> ListsRd.AvUdata v)), `Sleb
               | _ -> (at_high, f_udata, [], (fun v -> ListsRd.AvUdata v)), `Uleb)
          | 5 | 6 ->
              (match rand_int r 5 with
               | 0 -> (at_ranges, f_rnglistx, [], (fun i -> ListsRd.AvRnglistx i)), `Idx
               | 1 -> (at_ranges, f_data1, bytes_of_ints [rand_int r 256], (fun _ -> ListsRd.AvOther)), `None
               | _ -> (at_ranges, f_secoff, [], (fun o -> ListsRd.AvRangesRef o)), `Off)
          | _ -> (at_other, f_data1, bytes_of_ints [rand_int r 256], (fun _ -> ListsRd.AvOther)), `None) in
        (* materialise values *)
        let attrs = List.map (fun ((at, form, pre, mk), how) ->
          let name = if at = at_low then ListsRd.AtLowPc else if at = at_high then ListsRd.AtHighPc
            else if at = at_ranges then ListsRd.AtRanges else ListsRd.AtOther in
          match how with
          | `None -> (at, form, pre, (name, mk BinNums.N0))
          | `Leb when pre <> [] ->   (* low_pc addrx: index already chosen *)
              let v = (match Leb.read_uleb128 false pre with Res.Ok (v, _) -> v | _ -> BinNums.N0) in
              (at, form, pre, (name, mk v))
          | `Leb -> let i = gen_index r ~wf:(rand_int r 4 > 0) (max k 1) in (at, form, leb i, (name, mk (nz i)))
          | `Addr -> let a = baddr r sz in (at, form, bytes_of_zs sz be [a], (name, mk (nz a)))
          | `Fixed w ->
              let v = Z.erem (match rand_int r 3 with 0 -> boff r sz | 1 -> zmax64 | _ -> Z.of_int (rand_int r 300)) (amodz w) in
              (at, form, bytes_of_zs w be [v], (name, mk (nz v)))
          | `Uleb -> let v = boff r sz in (at, form, leb v, (name, mk (nz v)))
          | `Sleb ->
              let v = (match rand_int r 4 with
                | 0 -> Z.neg (Z.of_int (1 + rand_int r 100)) | 1 -> Z.pred (p2 63) | _ -> Z.of_int (rand_int r 1000)) in
              (at, form, sleb v, (name, if Z.sign v < 0 then ListsRd.AvOther else mk (nz v)))
          | `Idx -> let i = (match rand_int r 5 with 0 -> Z.of_int 2 | 1 -> extreme_index r | _ -> Z.of_int (rand_int r 2)) in
              (at, form, leb i, (name, mk (nz i)))
          | `Off ->
              let o = (match rand_int r 6 with
                | 0 -> Z.of_int (rand_int r 8) | 1 -> Z.pred (amodz w) | 2 -> Z.of_int (List.length lists_sect)
                | _ -> if dwo && version < 5 then Z.erem (Z.sub (Z.of_int list_off) (Z.of_int rnglists_base)) (p2 64) |> fun z -> Z.erem z (amodz w)
                       else Z.of_int list_off) in
              (at, form, bytes_of_zs w be [o], (name, mk (nz o)))) attrs in
        let u = { ListsRd.u_cfg = c; u_fmt64 = fmt64; u_dwo = dwo; u_low_pc = nz low_pc; u_addr_base = n_of_int addr_base;
                  u_rnglists_base = n_of_int rnglists_base; u_loclists_base = BinNums.N0; u_debug_addr = debug_addr;
                  u_debug_ranges = lists_sect; u_debug_rnglists = lists_sect; u_debug_loclists = [] } in
        let line = Printf.sprintf "c08.die %s %d %d %s %s %s %d %d %s %s %s %d%s" (b01 be) sz version (b01 fmt64) (b01 dwo)
            (Z.to_string low_pc) addr_base rnglists_base (hex_of_bytes debug_addr) (hex_of_bytes lists_sect) (hex_of_bytes lists_sect)
            (List.length attrs)
            (String.concat "" (List.map (fun (at, form, v, _) -> Printf.sprintf " %d %d %s" at form (hex_of_bytes v)) attrs)) in
        both emit line (fun dbg ->
          pr_events pr_range (ListsRd.die_ranges_all dbg u (List.map (fun (_, _, _, av) -> av) attrs)))
      done);
  register "c08.aoff" ~doc:"Dwarf::attr_ranges_offset / attr_locations_offset (RangeListsRef in a pre-v5 dwo adds rnglists_base, wrapping; rnglistx/loclistx through the offset tables) and the default list bases of Unit::new"
    (fun ~seed ~n emit ->
      let r = mk_rng (seed + 1010) in
      for _ = 1 to n do
        let be = rand_bool r in
        let sz = pick r sizes in
        let version = 2 + rand_int r 4 in
        let fmt64 = rand_int r 3 = 0 in
        let dwo = rand_bool r in
        let w = if fmt64 then 8 else 4 in
        let mk_sect () =
          let pad = rand_int r 14 in
          let count = rand_int r 4 in
          let words = List.init count (fun _ -> match rand_int r 5 with 0 -> Z.pred (amodz w) | _ -> Z.of_int (rand_int r 100000)) in
          (pad, count, rand_blist r pad @ bytes_of_zs w be words) in
        let (pad1, c1, rnglists) = mk_sect () in
        let (pad2, c2, loclists) = mk_sect () in
        let pick_base pad = match rand_int r 6 with 0 -> Z.zero | 1 -> zmax64 | 2 -> Z.of_int 12 | 3 -> Z.of_int 20 | _ -> Z.of_int pad in
        let rb = pick_base pad1 and lb = pick_base pad2 in
        let idx cnt = match rand_int r 6 with 0 -> Z.of_int cnt | 1 -> extreme_index r | _ -> Z.of_int (rand_int r (cnt + 1)) in
        let (at, form, vbytes, av) = match rand_int r 6 with
          | 0 -> let i = idx c1 in (at_ranges, f_rnglistx, leb i, ListsRd.AvRnglistx (nz i))
          | 1 -> let i = idx c2 in (at_loc, f_loclistx, leb i, ListsRd.AvLoclistx (nz i))
          | 2 -> let o = Z.erem (boff r w) (amodz w) in (at_loc, f_secoff, bytes_of_zs w be [o], ListsRd.AvLocRef (nz o))
          | 3 -> (at_other, f_data1, bytes_of_ints [7], ListsRd.AvOther)
          | _ -> let o = Z.erem (boff r w) (amodz w) in (at_ranges, f_secoff, bytes_of_zs w be [o], ListsRd.AvRangesRef (nz o)) in
        let u = { ListsRd.u_cfg = mkcfg be sz version; u_fmt64 = fmt64; u_dwo = dwo; u_low_pc = BinNums.N0; u_addr_base = BinNums.N0;
                  u_rnglists_base = nz rb; u_loclists_base = nz lb; u_debug_addr = []; u_debug_ranges = [];
                  u_debug_rnglists = rnglists; u_debug_loclists = loclists } in
        let line = Printf.sprintf "c08.aoff %s %d %d %s %s %s %s %s %s %d %d %s" (b01 be) sz version (b01 fmt64) (b01 dwo)
            (Z.to_string rb) (Z.to_string lb) (hex_of_bytes rnglists) (hex_of_bytes loclists) at form (hex_of_bytes vbytes) in
        let show = function Res.Ok None -> "none" | Res.Ok (Some o) -> sn o | Res.Err e -> "E" ^ Errnames.name e
          | Res.Panic -> "PANIC" | Res.OutOfFuel -> "FUEL" in
        both emit line (fun _ ->
          let d = sn (ListsRd.default_lists_base (n_of_int version) fmt64 dwo) in
          Printf.sprintf "ok %s %s %s %s" (show (ListsRd.attr_ranges_offset u av)) (show (ListsRd.attr_locations_offset u av)) d d)
      done)

let init () = ()
