(* s_c12.ml — streams for C12 (read→write conversion preserves meaning or fails). Impl-side oracles:
   expected token `ok`; the harness prints `ok same|err …|skip …` or `convert-mismatch <classes>` /
   `idempotence-mismatch …` / `reread-mismatch …`. *)
open Conv
open Streams

let ok emit case = emit case "ok" "ok"

let uleb (z : Z.t) : int list =
  let rec go z acc =
    let b = Z.to_int (Z.logand z (Z.of_int 0x7f)) in
    let z' = Z.shift_right z 7 in
    if Z.sign z' = 0 then List.rev (b :: acc) else go z' ((b lor 0x80) :: acc) in
  go z []
let sleb (z : Z.t) : int list =
  let rec go z acc =
    let b = Z.to_int (Z.logand z (Z.of_int 0x7f)) in
    let s = Z.shift_right z 6 in
    if Z.sign s = 0 || Z.equal s Z.minus_one then List.rev (b :: acc)
    else go (Z.shift_right z 7) ((b lor 0x80) :: acc) in
  go z []
let le n (v : Z.t) = List.init n (fun i -> Z.to_int (Z.logand (Z.shift_right v (8 * i)) (Z.of_int 255)))
let fixed be n v = if be then List.rev (le n v) else le n v

let p k = Z.shift_left Z.one k
let tame = ref true
let offsets r : Z.t =
  if !tame then Z.of_int (8 * rand_int r 64) else
  match rand_int r 14 with
  | 0 -> Z.zero | 1 -> Z.one | 2 -> Z.of_int 8 | 3 -> Z.of_int 16 | 4 -> Z.pred (p 31) | 5 -> p 31
  | 6 -> p 32 | 7 -> Z.pred (p 63) | 8 -> Z.of_int (rand_int r 4096) | 9 -> Z.of_int 127 | 10 -> Z.of_int 128
  | 11 -> Z.succ (p 31) | _ -> Z.of_int (8 * rand_int r 64)
let soffsets r : Z.t =
  let z = offsets r in
  if rand_bool r then Z.neg z else z
let reg r = if !tame then rand_int r 64 else match rand_int r 8 with 0 -> 0 | 1 -> 63 | 2 -> 64 | 3 -> 16 | 4 -> 7 | 5 -> 65535 | 6 -> 200 | _ -> rand_int r 32

(* one random CFA instruction (raw bytes) *)
let cfa_insn r be asz : int list =
  let z i = Z.of_int i in
  match rand_int r 26 with
  | 0 -> [0x40 lor (1 + rand_int r 63)]                                    (* advance_loc *)
  | 1 -> [0x02; pick r [| 1; 0x3f; 0x40; 0xff |]]                           (* advance_loc1 *)
  | 2 -> 0x03 :: fixed be 2 (z (pick r (if !tame then [| 1; 0xff; 0x100 |] else [| 1; 0xff; 0x100; 0xffff |])))       (* advance_loc2 *)
  | 3 -> 0x04 :: fixed be 4 (pick r (if !tame then [| z 1; z 0x100 |] else [| z 1; z 0xffff; z 0x10000; Z.pred (p 32); p 31 |])) (* advance_loc4 *)
  | 4 -> [0x80 lor (reg r land 63)] @ uleb (offsets r)                      (* offset *)
  | 5 -> [0xc0 lor (reg r land 63)]                                         (* restore *)
  | 6 -> 0x05 :: uleb (z (reg r)) @ uleb (offsets r)                        (* offset_extended *)
  | 7 -> 0x06 :: uleb (z (reg r))                                           (* restore_extended *)
  | 8 -> 0x07 :: uleb (z (reg r))                                           (* undefined *)
  | 9 -> 0x08 :: uleb (z (reg r))                                           (* same_value *)
  | 10 -> 0x09 :: uleb (z (reg r)) @ uleb (z (reg r))                       (* register *)
  | 11 -> [0x0a]                                                            (* remember_state *)
  | 12 -> [0x0b]                                                            (* restore_state *)
  | 13 -> 0x0c :: uleb (z (reg r)) @ uleb (offsets r)                       (* def_cfa *)
  | 14 -> 0x0d :: uleb (z (reg r))                                          (* def_cfa_register *)
  | 15 -> 0x0e :: uleb (offsets r)                                          (* def_cfa_offset *)
  | 16 -> let e = [0x70 + rand_int r 8; rand_int r 128] in 0x0f :: uleb (z (List.length e)) @ e   (* def_cfa_expression breg,off *)
  | 17 -> let e = [0x70 + rand_int r 8; rand_int r 64; 0x06] in 0x10 :: uleb (z (reg r)) @ uleb (z (List.length e)) @ e
  | 18 -> 0x11 :: uleb (z (reg r)) @ sleb (soffsets r)                      (* offset_extended_sf *)
  | 19 -> 0x12 :: uleb (z (reg r)) @ sleb (soffsets r)                      (* def_cfa_sf *)
  | 20 -> 0x13 :: sleb (soffsets r)                                         (* def_cfa_offset_sf *)
  | 21 -> 0x14 :: uleb (z (reg r)) @ uleb (offsets r)                       (* val_offset *)
  | 22 -> 0x15 :: uleb (z (reg r)) @ sleb (soffsets r)                      (* val_offset_sf *)
  | 23 -> let e = [0x50 + rand_int r 32] in 0x16 :: uleb (z (reg r)) @ uleb (z (List.length e)) @ e  (* val_expression *)
  | 24 -> 0x2e :: uleb (offsets r)                                          (* GNU_args_size *)
  | _ -> ignore asz; [0x00]

let () =
  register "c12.corpus" ~doc:"every non-split corpus variant: units (forest, attribute meanings, line rows), .eh_frame and .debug_frame unwind rows; exhaustive over the corpus"
    (fun ~seed:_ ~n:_ emit ->
      let vs = S_c01.variants () in
      Array.iter (fun v ->
        let has s = try let _ = String.index v '_' in ignore s; true with Not_found -> true in
        ignore has;
        let is_split = List.exists (fun suf ->
          let ls = String.length suf and lv = String.length v in lv >= ls && String.sub v (lv - ls) ls = suf)
          ["_dwo"; "_dwp"; "_ldwp"; "_skel"] in
        if not is_split then ok emit (Printf.sprintf "c12.corpus %s units" v);
        if not is_split || (String.length v > 5 && String.sub v (String.length v - 5) 5 = "_skel") then begin
          ok emit (Printf.sprintf "c12.corpus %s ehframe" v);
          ok emit (Printf.sprintf "c12.corpus %s debugframe" v) end) vs);
  register "c12.line5" ~doc:"line programs built with gimli::write and converted: versions 2-5 x both formats x address sizes 4/8 x both byte orders x every subset of the optional DWARF 5 file entry fields {timestamp, size, MD5, source} x 1..4 files in 3 directories with distinct infos; meaning = rows + complete file entries (exhaustive over that grid)"
    (fun ~seed ~n:_ emit ->
      List.iter (fun ver -> List.iter (fun fmt -> List.iter (fun asz -> List.iter (fun be ->
        for flags = 0 to (if ver >= 5 then 15 else 0) do
          for nfiles = 1 to 4 do
            ok emit (Printf.sprintf "c12.line5 %d %d %d %d %d %d %d" be asz fmt ver flags nfiles (seed * 131 + flags * 7 + nfiles))
          done
        done) [0; 1]) [4; 8]) [4; 8]) [2; 3; 4; 5]);
  register "c12.cfi" ~doc:"generated one-CIE/one-FDE frame sections: every DW_CFA opcode with boundary operands, large/odd/zero alignment factors, both sections, both endians, address sizes 4/8, CIE versions 1/3/4"
    (fun ~seed ~n emit ->
      let r = mk_rng seed in
      let cafs = [| "1"; "1"; "2"; "4"; "255"; "256"; "65536"; "4294967296"; "0"; "3" |] in
      let dafs = [| "-8"; "-4"; "-1"; "1"; "8"; "127"; "128"; "-128"; "-129"; "2147483648"; "0"; "-8"; "-8" |] in
      for _ = 1 to n do
        tame := rand_int r 10 < 7;
        let eh = rand_bool r in
        let be = rand_int r 4 = 0 in
        let asz = pick r [| 8; 8; 4 |] in
        let version = if eh then 1 else pick r [| 1; 3; 4 |] in
        let caf = if !tame then pick r [| "1"; "1"; "2"; "4" |] else pick r cafs
        and daf = if !tame then pick r [| "-8"; "-4"; "8"; "1"; "-1" |] else pick r dafs in
        let ra = pick r [| 16; 16; 0; 255; 30 |] in
        let cie = List.concat (List.init (rand_int r 4) (fun _ ->
          match rand_int r 3 with
          | 0 -> 0x0c :: uleb (Z.of_int 7) @ uleb (Z.of_int 8)
          | 1 -> [0x80 lor 16] @ uleb (Z.of_int 1)
          | _ -> cfa_insn r be asz)) in
        let fde = List.concat (List.init (rand_int r 10) (fun _ -> cfa_insn r be asz)) in
        let initial = pick r [| "4096"; "0"; "4294963200"; "1" |] in
        let range = if !tame then "1048576" else pick r [| "256"; "65536"; "4294967295"; "16"; "1048576" |] in
        ok emit (Printf.sprintf "c12.cfi %d %d %d %d %s %s %d %s %s %s %s" (if eh then 1 else 0) (if be then 1 else 0)
                   asz version caf daf ra (hex_of_ints cie) initial range (hex_of_ints fde))
      done);
  let line_stream name vliw = register name ~doc:"generated v2-4 line programs inside a minimal unit: every standard/extended/special opcode incl. mid-sequence set_address, fixed_advance_pc, const_add_pc, several sequences; header parameter grid (c12.vliw: maximum_operations_per_instruction > 1)"
    (fun ~seed ~n emit ->
      let r = mk_rng seed in
      for _ = 1 to n do
        let be = rand_int r 4 = 0 in
        let asz = pick r [| 8; 4 |] in
        let version = if vliw then 4 else pick r [| 2; 3; 4 |] in
        let min_len = pick r [| 1; 1; 2; 4 |] in
        let max_ops = if vliw && version >= 4 then pick r [| 2; 4 |] else 1 in
        let line_base = pick r [| -5; -3; -1; 0; -10; -128 |] in
        let line_range = pick r [| 14; 12; 10; 1; 4; 100; 200; 255 |] in
        let opcode_base = pick r [| 13; 13; 13; 10; 1; 14; 20 |] in
        let ext op args = 0 :: uleb (Z.of_int (1 + List.length args)) @ (op :: args) in
        let std op args = if op < opcode_base then op :: args else [] in
        let addr = ref (4096 * (1 + rand_int r 4)) in
        let set_address () = ext 2 (fixed be asz (Z.of_int !addr)) in
        let seqs = 1 + rand_int r 3 in
        let prog = List.concat (List.init seqs (fun _ ->
          (* sequence start: usually an address; sometimes a tombstone address (-1 / -2 at the address size:
             the reader drops the whole sequence), sometimes no DW_LNE_set_address at all (starts at 0) *)
          let head = match rand_int r 8 with
            | 0 -> let ones = Z.pred (Z.shift_left Z.one (8 * asz)) in
                   ext 2 (fixed be asz (if rand_bool r then ones else Z.pred ones))
            | 1 -> []
            | _ -> set_address () in
          let body = List.concat (List.init (1 + rand_int r 10) (fun _ ->
            match rand_int r 18 with
            | 0 -> std 1 []
            | 1 -> std 2 (uleb (Z.of_int (rand_int r 300)))
            | 2 -> std 3 (sleb (Z.of_int (rand_int r 40 - 10)))
            | 3 -> std 4 (uleb (Z.of_int (1 + rand_int r 2)))
            | 4 -> std 5 (uleb (Z.of_int (rand_int r 100)))
            | 5 -> std 6 []
            | 6 -> std 7 []
            | 7 -> std 8 []
            | 8 -> std 9 (fixed be 2 (Z.of_int (rand_int r 1000)))
            | 9 -> std 10 []
            | 10 -> std 11 []
            | 11 -> std 12 (uleb (Z.of_int (rand_int r 4)))
            | 12 -> ext 4 (uleb (Z.of_int (rand_int r 10)))
            | 13 -> (* mid-sequence set_address, forwards *)
                addr := !addr + 0x100 + rand_int r 0x1000; set_address () @ std 1 []
            | _ -> if opcode_base <= 255 then [opcode_base + rand_int r (256 - opcode_base)] else [])) in
          addr := !addr + 0x10000;
          head @ body @ std 2 (uleb (Z.of_int (1 + rand_int r 8))) @ ext 1 [])) in
        ok emit (Printf.sprintf "%s %d %d %d %d %d %d %d %d %s" name (if be then 1 else 0) asz (if vliw then 4 else version) min_len max_ops
                   line_base line_range opcode_base (hex_of_ints prog))
      done) in
  line_stream "c12.line" false;
  line_stream "c12.vliw" true
let init () = ()
(* c12.arith: Model/ConvertArith.v vs write::cfi::convert, one arithmetic step per case *)
let () =
  let show_z r = show_res (fun v -> string_of_cz v) r in
  register "c12.arith" ~doc:"conversion arithmetic of CFI offsets, factored offsets, alignment factors and advance accumulation: boundary values around 2^7, 2^8, 2^31, 2^32, 2^63"
    (fun ~seed ~n emit ->
      let r = mk_rng seed in
      let p k = Z.shift_left Z.one k in
      let around = List.concat_map (fun k -> [Z.pred (p k); p k; Z.succ (p k)]) [0; 7; 8; 15; 16; 30; 31; 32; 33; 62; 63] in
      let u64s = Z.zero :: Z.pred (p 64) :: around in
      let off z = both emit (Printf.sprintf "c12.arith off %s" (Z.to_string z)) (fun _ ->
        show_z (ConvertArith.convert_offset (n_of_z z))) in
      List.iter off u64s;
      let i64 z = Z.numbits z <= 63 || Z.equal z (Z.neg (p 63)) in
      let foff f d = if i64 f && i64 d then
        both emit (Printf.sprintf "c12.arith foff %s %s" (Z.to_string f) (Z.to_string d)) (fun _ ->
          match ConvertArith.convert_factored_offset (cz_of_z f) (cz_of_z d) with
          (* the conversion succeeds with i32::MIN, but the WRITER cannot factor it by -1 (2^31 does not fit i32) *)
          | Res.Ok v when Z.equal (z_of_cz v) (Z.neg (p 31)) && Z.equal d Z.minus_one -> "writeerr InvalidFrameDataOffset"
          | x -> show_z x) in
      let small = [Z.of_int (-8); Z.of_int (-4); Z.minus_one; Z.one; Z.of_int 2; Z.of_int 8; Z.of_int 127; Z.of_int (-128)] in
      List.iter (fun f -> List.iter (fun d -> foff f d; foff (Z.neg f) d) small) (List.filter i64 around);
      let fac c d = if i64 d then both emit (Printf.sprintf "c12.arith fac %s %s" (Z.to_string c) (Z.to_string d)) (fun _ ->
        show_res (fun (c, d) -> string_of_n c ^ " " ^ string_of_cz d) (ConvertArith.convert_factors (n_of_z c) (cz_of_z d))) in
      List.iter (fun c -> List.iter (fun d -> fac c d)
        [Z.of_int (-129); Z.of_int (-128); Z.of_int (-1); Z.one; Z.of_int 127; Z.of_int 128; Z.of_int 8; p 31])
        [Z.one; Z.of_int 2; Z.of_int 255; Z.of_int 256; Z.of_int 257; p 32; Z.of_int 4];
      let adv o dl c = both emit (Printf.sprintf "c12.arith adv %s %s %s" (Z.to_string o) (Z.to_string dl) (Z.to_string c)) (fun _ ->
        (* first advance o*c establishes the running offset, then delta*c is added *)
        match ConvertArith.convert_advance N0 (n_of_z o) (n_of_z c) with
        | Res.Ok o' -> show_res string_of_n (ConvertArith.convert_advance o' (n_of_z dl) (n_of_z c))
        | x -> show_res string_of_n x) in
      let u32s = List.filter (fun z -> Z.numbits z <= 32) (Z.zero :: around) in
      List.iter (fun o -> List.iter (fun dl -> List.iter (fun c -> adv o dl c) [Z.one; Z.of_int 2; Z.of_int 255])
        [Z.one; Z.of_int 0xffff; Z.pred (p 32); p 31]) [Z.zero; Z.one; p 31; Z.pred (p 32); Z.of_int 0x7fffffff];
      ignore u32s;
      for _ = 1 to n do
        match rand_int r 3 with
        | 0 -> off (boundary_z64 r)
        | 1 -> let f = boundary_z64 r in let f = if Z.numbits f > 63 then Z.sub f (p 64) else f in foff f (List.nth small (rand_int r 8))
        | _ -> adv (Z.of_int (rand_int r 100000)) (Z.logand (boundary_z64 r) (Z.pred (p 32))) (Z.of_int (1 + rand_int r 255))
      done)

(* ======================================================================================================
   Correspondence streams for the converter models (Model/Convert{Cfi,Expr,Lists,Attr}.v).
   The harness prints the converted write-side objects through their `Debug` rendering (whitespace and the
   `base_id` fields removed); the printers below produce the same text from the model's values. *)
module Cx = struct
  let sn = string_of_n
  let sz = string_of_cz
  let spf = Printf.sprintf
  let bytes_dbg (bs : Byte0.byte list) = "[" ^ String.concat "," (List.map (fun b -> string_of_int (int_of_byte b)) bs) ^ "]"
  let eid n = spf "UnitEntryId{index:%s}" (sn n)
  let dref = function
    | OpWr.RSym s -> spf "Symbol(%s)" (sn s)
    | OpWr.REntry (u, e) -> spf "Entry(UnitId{index:%s},%s)" (sn u) (eid e)
  let waddr = function
    | OpWr.AConst v -> spf "Constant(%s)" (sn v)
    | OpWr.ASym (s, a) -> spf "Symbol{symbol:%s,addend:%s}" (sn s) (sz a)
  let rec wop (o : OpWr.wop) : string =
    match o with
    | OpWr.WoRaw b -> spf "Raw(%s)" (bytes_dbg b)
    | OpWr.WoSimple opc -> spf "Simple(DwOp(%s))" (sn opc)
    | OpWr.WoAddress a -> spf "Address(%s)" (waddr a)
    | OpWr.WoUConst v -> spf "UnsignedConstant(%s)" (sn v)
    | OpWr.WoSConst v -> spf "SignedConstant(%s)" (sz v)
    | OpWr.WoConstType (b, v) -> spf "ConstantType(%s,%s)" (eid b) (bytes_dbg v)
    | OpWr.WoFrameOffset v -> spf "FrameOffset(%s)" (sz v)
    | OpWr.WoRegOffset (r, v) -> spf "RegisterOffset(Register(%s),%s)" (sn r) (sz v)
    | OpWr.WoRegType (r, b) -> spf "RegisterType(Register(%s),%s)" (sn r) (eid b)
    | OpWr.WoPick i -> spf "Pick(%s)" (sn i)
    | OpWr.WoDeref sp -> spf "Deref{space:%b}" sp
    | OpWr.WoDerefSize (sp, s) -> spf "DerefSize{space:%b,size:%s}" sp (sn s)
    | OpWr.WoDerefType (sp, s, b) -> spf "DerefType{space:%b,size:%s,base:%s}" sp (sn s) (eid b)
    | OpWr.WoPlusConst v -> spf "PlusConstant(%s)" (sn v)
    | OpWr.WoSkip t -> spf "Skip(%s)" (sn t)
    | OpWr.WoBranch t -> spf "Branch(%s)" (sn t)
    | OpWr.WoCall en -> spf "Call(%s)" (eid en)
    | OpWr.WoCallRef r -> spf "CallRef(%s)" (dref r)
    | OpWr.WoVarValue r -> spf "VariableValue(%s)" (dref r)
    | OpWr.WoConvert None -> "Convert(None)"
    | OpWr.WoConvert (Some b) -> spf "Convert(Some(%s))" (eid b)
    | OpWr.WoReinterpret None -> "Reinterpret(None)"
    | OpWr.WoReinterpret (Some b) -> spf "Reinterpret(Some(%s))" (eid b)
    | OpWr.WoEntryValue ex -> spf "EntryValue(Expression{operations:%s})" (wexpr ex)
    | OpWr.WoRegister r -> spf "Register(Register(%s))" (sn r)
    | OpWr.WoImplicitValue d -> spf "ImplicitValue(%s)" (bytes_dbg d)
    | OpWr.WoImplicitPointer (r, off) -> spf "ImplicitPointer{entry:%s,byte_offset:%s}" (dref r) (sz off)
    | OpWr.WoPiece s -> spf "Piece{size_in_bytes:%s}" (sn s)
    | OpWr.WoBitPiece (s, o) -> spf "BitPiece{size_in_bits:%s,bit_offset:%s}" (sn s) (sn o)
    | OpWr.WoParameterRef en -> spf "ParameterRef(%s)" (eid en)
    | OpWr.WoWasmLocal i -> spf "WasmLocal(%s)" (sn i)
    | OpWr.WoWasmGlobal i -> spf "WasmGlobal(%s)" (sn i)
    | OpWr.WoWasmStack i -> spf "WasmStack(%s)" (sn i)
  and wexpr ex = "[" ^ String.concat "," (List.map wop ex) ^ "]"

  (* the address conversion callbacks of the streams (harness: cvt_mode) *)
  let cvt_mode (mode : int) (a : BinNums.coq_N) : OpWr.waddr option =
    let z = z_of_n a in
    if mode >= 1 && Z.equal z (Z.of_int 0xdead) then None
    else if mode >= 2 && Z.geq z (Z.of_string "2147483648") then
      Some (OpWr.ASym (n_of_int 1, cz_of_z (Z.sub z (Z.of_string "2147483648"))))
    else Some (OpWr.AConst a)

  let rec sub (l : 'a list) off len =
    if off > 0 then (match l with [] -> [] | _ :: t -> sub t (off - 1) len)
    else if len <= 0 then [] else (match l with [] -> [] | x :: t -> x :: sub t 0 (len - 1))

  let dec_enc ~be ~asz ~ver : OpDec.enc = { OpDec.e_asz = n_of_int asz; e_fmt64 = false; e_ver = n_of_int ver; e_be = be }

  (* Expression::from without a unit (CFI): no .debug_addr, NoConvertDebugInfoRef *)
  let conv_expr_cfi dbg ~be ~asz ~ver ~mode (bs : Byte0.byte list) =
    ConvertExpr.conv_expr dbg (dec_enc ~be ~asz ~ver) None (cvt_mode mode)
      (fun _ -> Res.Err Res.CInvalidUnitRef) (fun _ -> Res.Err Res.CInvalidDebugInfoRef) bs

  (* ---- random expressions: operation chunks first, branch displacements patched after layout ---- *)
  type chunk = Bytes of int list | Br of int * int   (* opcode, target chunk index (may be out of range / -1 = mid-op) *)
  let gen_expr r ~be ~asz ~ver ~(dies : int list) ~depth : int list =
    let z = Z.of_int in
    let die () = if dies = [] || rand_int r 12 = 0 then rand_int r 40 else List.nth dies (rand_int r (List.length dies)) in
    let die0 () = if rand_int r 4 = 0 then 0 else die () in
    let small () = pick r [| 0; 1; 2; 5; 31; 32; 63; 64; 127; 128; 300; 65535 |] in
    let rec one depth : chunk =
      match rand_int r 44 with
      | 0 -> Bytes [0x30 + rand_int r 32]
      | 1 -> Bytes (0x10 :: uleb (if rand_bool r then z (small ()) else boundary_z64 r))
      | 2 -> Bytes (0x11 :: sleb (z (rand_int r 2000 - 1000)))
      | 3 -> Bytes [0x08; rand_int r 256]
      | 4 -> Bytes (0x0a :: fixed be 2 (z (rand_int r 65536)))
      | 5 -> Bytes (0x0d :: fixed be 4 (z (rand_int r 100000)))
      | 6 -> Bytes [0x50 + rand_int r 32]
      | 7 -> Bytes ((0x70 + rand_int r 32) :: sleb (z (rand_int r 600 - 300)))
      | 8 -> Bytes (0x90 :: uleb (z (pick r [| 0; 31; 32; 300; 65535; 65536 |])))
      | 9 -> Bytes (0x92 :: uleb (z (pick r [| 0; 31; 32; 300; 65535 |])) @ sleb (z (rand_int r 600 - 300)))
      | 10 -> Bytes (0x91 :: sleb (z (rand_int r 600 - 300)))
      | 11 -> Bytes [pick r [| 0x12; 0x13; 0x14; 0x16; 0x17; 0x19; 0x1a; 0x1b; 0x1c; 0x1d; 0x1e; 0x1f; 0x20; 0x21; 0x22;
                              0x24; 0x25; 0x26; 0x27; 0x29; 0x2a; 0x2b; 0x2c; 0x2d; 0x2e; 0x96; 0x97; 0x9b; 0xe0; 0x9c; 0x9f; 0xf0 |]]
      | 12 -> Bytes [0x15; rand_int r 256]
      | 13 -> Bytes [pick r [| 0x06; 0x18 |]]
      | 14 -> Bytes [pick r [| 0x94; 0x95 |]; pick r [| 1; 2; 4; 8; asz; 0; 255 |]]
      | 15 -> Bytes (pick r [| 0xa6; 0xf6; 0xa7 |] :: pick r [| 1; 4; 8; asz |] :: uleb (z (die0 ())))
      | 16 -> Bytes (0x23 :: uleb (z (small ())))
      | 17 | 18 -> Br (0x2f, rand_int r 12 - 1)
      | 19 | 20 -> Br (0x28, rand_int r 12 - 1)
      | 21 -> Bytes (0x93 :: uleb (if rand_int r 8 = 0 then Z.shift_left Z.one 61 else z (small ())))
      | 22 -> Bytes (0x9d :: uleb (z (small ())) @ uleb (z (small ())))
      | 23 -> let d = rand_bytes r (rand_int r 5) in Bytes (0x9e :: uleb (z (List.length d)) @ d)
      | 24 -> Bytes (0x03 :: fixed be asz (pick r [| z 4096; z 0; z 0xdead; Z.of_string "2147483648"; Z.of_string "4294967295" |]))
      | 25 -> Bytes (pick r [| 0xa1; 0xfb |] :: uleb (z (rand_int r 4)))
      | 26 -> Bytes (pick r [| 0xa2; 0xfc |] :: uleb (z (rand_int r 4)))
      | 27 -> Bytes (0x98 :: fixed be 2 (z (die ())))
      | 28 -> Bytes (0x99 :: fixed be 4 (z (die ())))
      | 29 -> Bytes (0x9a :: fixed be 4 (z (die ())))
      | 30 -> Bytes (0xfd :: fixed be 4 (z (die ())))
      | 31 -> Bytes (pick r [| 0xa0; 0xf2 |] :: fixed be (if ver = 2 then asz else 4) (z (die ())) @ sleb (z (rand_int r 100 - 50)))
      | 32 -> Bytes (0xfa :: fixed be 4 (z (die ())))
      | 33 -> let d = rand_bytes r (rand_int r 4) in Bytes (pick r [| 0xa4; 0xf4 |] :: uleb (z (die ())) @ (List.length d :: d))
      | 34 -> Bytes (pick r [| 0xa5; 0xf5 |] :: uleb (z (rand_int r 40)) @ uleb (z (die0 ())))
      | 35 -> Bytes (pick r [| 0xa8; 0xf7 |] :: uleb (z (die0 ())))
      | 36 -> Bytes (pick r [| 0xa9; 0xf9 |] :: uleb (z (die0 ())))
      | 37 -> Bytes (0xed :: rand_int r 3 :: uleb (z (rand_int r 100000)))
      | 38 -> Bytes (0xed :: 3 :: fixed be 4 (z (rand_int r 100000)))
      | 39 | 40 when depth > 0 ->
          let inner = whole (depth - 1) (rand_int r 4) in
          Bytes (pick r [| 0xa3; 0xf3 |] :: uleb (z (List.length inner)) @ inner)
      | 41 -> Bytes [pick r [| 0x01; 0x02; 0xff; 0xa3 |]]     (* unknown opcode / truncated entry_value *)
      | _ -> Bytes [0x30 + rand_int r 32]
    and whole depth n : int list =
      let chunks = Array.init n (fun _ -> one depth) in
      let size = function Bytes b -> List.length b | Br _ -> 3 in
      let starts = Array.make (n + 1) 0 in
      Array.iteri (fun i c -> starts.(i + 1) <- starts.(i) + size c) chunks;
      List.concat (Array.to_list (Array.mapi (fun i c ->
        match c with
        | Bytes b -> b
        | Br (opc, t) ->
            let tgt = if t < 0 then starts.(i) + 1            (* into the middle of this operation *)
                      else if t > n then starts.(n) + 1 + rand_int r 5   (* past the end *)
                      else starts.(t) in
            let disp = tgt - (starts.(i) + 3) in
            opc :: fixed be 2 (Z.of_int (disp land 0xffff))) chunks)) in
    whole depth (1 + rand_int r 7)

  (* the unit the harness builds for the unit-mode streams: header, then root, two base types, a fourth DIE *)
  let unit_hdr ver = if ver >= 5 then 12 else 11
  let root_size ~asz ~ver ~low_pc ~line = 1 + (if low_pc then asz else 0) + (if ver >= 5 then 4 else 0) + (if line then 4 else 0)
  let die_offsets ~asz ~ver ~low_pc ~line =
    let h = unit_hdr ver in let r = root_size ~asz ~ver ~low_pc ~line in [h; h + r; h + r + 2; h + r + 4]
end

let () =
  let open Cx in
  register "c12.cficonv" ~doc:"ConvertCfi.conv_entry vs write::FrameTable::from: generated CIE + FDE instruction streams (every DW_CFA opcode incl. expressions, boundary operands, large factors, truncations); compared = the converted instruction lists with their code offsets, or the error"
    (fun ~seed ~n emit ->
      let r = mk_rng (seed + 1201) in
      let cafs = [| "1"; "2"; "4"; "255"; "256"; "65536"; "4294967296"; "0"; "3" |] in
      let dafs = [| "-8"; "-4"; "-1"; "1"; "8"; "127"; "128"; "-128"; "-129"; "2147483648"; "0" |] in
      for _ = 1 to n do
        tame := rand_int r 10 < 6;
        let be = rand_int r 4 = 0 in
        let asz = pick r [| 8; 8; 4 |] in
        let version = pick r [| 1; 3; 4 |] in
        let caf = if !tame then pick r [| "1"; "1"; "2"; "4" |] else pick r cafs
        and daf = if !tame then pick r [| "-8"; "-4"; "8"; "1"; "-1" |] else pick r dafs in
        let cie = List.concat (List.init (rand_int r 4) (fun _ -> cfa_insn r be asz)) in
        let fde = List.concat (List.init (rand_int r 10) (fun _ -> cfa_insn r be asz)) in
        let fde = if rand_int r 20 = 0 then (match List.rev fde with [] -> [] | _ :: t -> List.rev t) else fde in
        let fde = if rand_int r 30 = 0 then fde @ (0x01 :: fixed be asz (Z.of_int 0x2000)) else fde in
        (* running code offsets around 2^32 *)
        let fde = if rand_int r 15 = 0 then
            (0x04 :: fixed be 4 (Z.of_string "4294967280")) @ [0x40 lor (pick r [| 15; 16; 63; 1 |]); 0x0e; 0x08] @ fde
          else fde in
        let case = Printf.sprintf "c12.cficonv %d %d %d %s %s %s %s" (if be then 1 else 0) asz version caf daf (hex_of_ints cie) (hex_of_ints fde) in
        both emit case (fun dbg ->
          let d = { CfiRun.d_be = be; d_asize = n_of_int asz; d_aarch64 = false } in
          (* the section builder of the harness pads both entries with DW_CFA_nop to the address size *)
          let pad body = (asz - ((body + 4) mod asz)) mod asz in
          let cie_hdr = 4 + 1 + 1 + (if version >= 4 then 2 else 0) + List.length (uleb (Z.of_string caf))
                        + List.length (sleb (Z.of_string daf)) + 1 in
          let cie = cie @ List.init (pad (cie_hdr + List.length cie)) (fun _ -> 0) in
          let fde = fde @ List.init (pad (4 + 2 * asz + List.length fde)) (fun _ -> 0) in
          let cie_b = bytes_of_ints cie and fde_b = bytes_of_ints fde in
          let fde_base = 1000000 in
          let table : OpWr.wop list list ref = ref [] in
          let xconv (e : CfaSpec.uexpr) : Byte0.byte list Res.res =
            let off = int_of_n e.CfaSpec.ue_off and len = int_of_n e.CfaSpec.ue_len in
            let bs = if off >= fde_base then sub fde_b (off - fde_base) len else sub cie_b off len in
            match conv_expr_cfi dbg ~be ~asz ~ver:version ~mode:0 bs with
            | Res.Ok ex -> let k = List.length !table in table := !table @ [ex];
                           Res.Ok [byte_of_int (k / 256); byte_of_int (k land 255)]
            | Res.Err x -> Res.Err x | Res.Panic -> Res.Panic | Res.OutOfFuel -> Res.OutOfFuel in
          let expr (k : Byte0.byte list) = match k with
            | [a; b] -> spf "Expression{operations:%s}" (wexpr (List.nth !table (int_of_byte a * 256 + int_of_byte b)))
            | _ -> "?" in
          let reg x = spf "Register(%s)" (sn x) in
          let cfi (c : CfaEncSpec.cfi) = match c with
            | CfaEncSpec.Cfa (x, o) -> spf "Cfa(%s,%s)" (reg x) (sz o)
            | CfaEncSpec.CfaRegister x -> spf "CfaRegister(%s)" (reg x)
            | CfaEncSpec.CfaOffset o -> spf "CfaOffset(%s)" (sz o)
            | CfaEncSpec.CfaExpression e -> spf "CfaExpression(%s)" (expr e)
            | CfaEncSpec.Restore x -> spf "Restore(%s)" (reg x)
            | CfaEncSpec.Undefined x -> spf "Undefined(%s)" (reg x)
            | CfaEncSpec.SameValue x -> spf "SameValue(%s)" (reg x)
            | CfaEncSpec.Offset (x, o) -> spf "Offset(%s,%s)" (reg x) (sz o)
            | CfaEncSpec.ValOffset (x, o) -> spf "ValOffset(%s,%s)" (reg x) (sz o)
            | CfaEncSpec.Register (a, b) -> spf "Register(%s,%s)" (reg a) (reg b)
            | CfaEncSpec.Expression (x, e) -> spf "Expression(%s,%s)" (reg x) (expr e)
            | CfaEncSpec.ValExpression (x, e) -> spf "ValExpression(%s,%s)" (reg x) (expr e)
            | CfaEncSpec.RememberState -> "RememberState"
            | CfaEncSpec.RestoreState -> "RestoreState"
            | CfaEncSpec.ArgsSize k -> spf "ArgsSize(%s)" (sn k)
            | CfaEncSpec.NegateRaState -> "NegateRaState" in
          let cie_items = CfiRun.decode dbg d N0 cie_b in
          let fde_items = CfiRun.decode dbg d (n_of_int fde_base) fde_b in
          show_res (fun ((f, cl), fl) ->
            let (c, dd) = f in
            spf "%s %s [%s] [%s]" (sn c) (sz dd) (String.concat "," (List.map cfi cl))
              (String.concat "," (List.map (fun (o, x) -> spf "(%s,%s)" (sn o) (cfi x)) fl)))
            (ConvertCfi.conv_entry (n_of_string caf) (cz_of_string daf) xconv cie_items fde_items))
      done);
  register "c12.exprconv" ~doc:"ConvertExpr.conv_expr vs write::Expression::from (reached through DW_CFA_def_cfa_expression and through ConvertUnit::convert_expression in a four-DIE unit): generated expressions with every operation kind, branches to operation starts / into operands / past the end, nested entry_value, unit and .debug_info references valid and invalid, addrx/constx with and without .debug_addr entries, address callbacks returning None / symbols; compared = the converted operation list or the error"
    (fun ~seed ~n emit ->
      let r = mk_rng (seed + 1202) in
      for _ = 1 to n do
        let be = rand_int r 4 = 0 in
        let asz = pick r [| 8; 8; 4 |] in
        let mode = pick r [| 0; 0; 1; 2 |] in
        if rand_int r 3 = 0 then begin
          let ver = pick r [| 1; 3; 4 |] in
          let e = gen_expr r ~be ~asz ~ver ~dies:[] ~depth:2 in
          let case = Printf.sprintf "c12.exprconv cfi %d %d %d %d %s" (if be then 1 else 0) asz ver mode (hex_of_ints e) in
          both emit case (fun dbg -> show_res wexpr (conv_expr_cfi dbg ~be ~asz ~ver ~mode (bytes_of_ints e)))
        end else begin
          let ver = pick r [| 2; 3; 4; 5 |] in
          let dies = die_offsets ~asz ~ver ~low_pc:false ~line:false in
          let nad = rand_int r 4 in
          let hdr = if ver >= 5 then [0; 0; 0; 0; 5; 0; asz; 0] else [] in
          let daddr = hdr @ List.concat (List.init nad (fun k ->
            fixed be asz (pick r [| Z.of_int (0x2000 + 16 * k); Z.of_int 0xdead; Z.of_string "2147483648"; Z.zero |]))) in
          let daddr = if rand_int r 10 = 0 then (match List.rev daddr with [] -> [] | _ :: t -> List.rev t) else daddr in
          let e = gen_expr r ~be ~asz ~ver ~dies ~depth:2 in
          let case = Printf.sprintf "c12.exprconv unit %d %d %d %d %s %s" (if be then 1 else 0) asz ver mode (hex_of_ints daddr) (hex_of_ints e) in
          both emit case (fun dbg ->
            let base = if ver >= 5 then 8 else 0 in
            let ua i = ListsRd.get_address be (bytes_of_ints daddr) (n_of_int asz) (n_of_int base) i in
            let idx_of off = let rec go k = function [] -> None | d :: t -> if Z.equal (z_of_n off) (Z.of_int d) then Some k else go (k + 1) t in go 0 dies in
            let unit_ref off = match idx_of off with Some k -> Res.Ok (n_of_int k) | None -> Res.Err Res.CInvalidUnitRef in
            let info_ref off = match idx_of off with Some k -> Res.Ok (OpWr.REntry (N0, n_of_int k)) | None -> Res.Err Res.CInvalidDebugInfoRef in
            show_res wexpr (ConvertExpr.conv_expr dbg (dec_enc ~be ~asz ~ver) (Some ua) (cvt_mode mode) unit_ref info_ref (bytes_of_ints e)))
        end
      done)

(* ---- c12.listconv ---- *)
let () =
  let open Cx in
  let module W = ListWrSpec in
  let laddr = function
    | W.AConst v -> spf "Constant(%s)" (sn v)
    | W.ASym (s, a) -> spf "Symbol{symbol:%s,addend:%s}" (sn s) (sz a) in
  let lcvt mode a = match cvt_mode mode a with
    | None -> None | Some (OpWr.AConst v) -> Some (W.AConst v) | Some (OpWr.ASym (s, x)) -> Some (W.ASym (s, x)) in
  register "c12.listconv" ~doc:"ConvertLists.conv_range_list / conv_loc_list vs RangeList::from / LocationList::from (ConvertUnit::convert_range_list / convert_location_list in a generated unit): all entry kinds of .debug_ranges/.debug_loc and .debug_rnglists/.debug_loclists, unit base address zero / non-zero, base selection, empty ranges, .debug_addr indices in and out of range, address callbacks returning None / symbols, truncated lists; compared = the converted entry list or the error"
    (fun ~seed ~n emit ->
      let r = mk_rng (seed + 1203) in
      for _ = 1 to n do
        let loc = rand_bool r in
        let be = rand_int r 4 = 0 in
        let asz = pick r [| 8; 8; 4 |] in
        let ver = pick r [| 2; 3; 4; 5; 5 |] in
        let mode = pick r [| 0; 0; 0; 1; 2 |] in
        let low_pc = pick r [| 0; 0; 4096 |] in
        let c = { ListSpec.c_be = be; c_asize = n_of_int asz; c_version = n_of_int ver } in
        let bare = ver <= 4 in
        let nad = if rand_int r 8 = 0 then 0 else 1 + rand_int r 3 in
        let hdr = if ver >= 5 then [0; 0; 0; 0; 5; 0; asz; 0] else [] in
        let daddr = hdr @ List.concat (List.init nad (fun k ->
          fixed be asz (match rand_int r 12 with 0 -> Z.of_int 0xdead | 1 -> Z.of_string "2147483648" | _ -> Z.of_int (0x2000 + 16 * k)))) in
        let adr () = n_of_z (match rand_int r 16 with
          | 0 -> Z.of_int 0xdead | 1 -> Z.of_string "2147483648" | 2 -> Z.of_string "2147483664" | 3 -> Z.of_int 1
          | _ -> Z.of_int (16 * rand_int r 64)) in
        let ofs () = n_of_int (pick r [| 0; 1; 16; 32; 48; 300 |]) in
        let idx () = n_of_int (if nad > 0 && rand_int r 10 <> 0 then rand_int r nad else nad) in
        let entry () : ListSpec.lent =
          if bare then (match rand_int r 5 with
            | 0 -> ListSpec.LBase (adr ())
            | 1 -> let a = adr () in ListSpec.LPair (a, a)
            | _ -> ListSpec.LPair (ofs (), n_of_int (1 + rand_int r 400)))
          else (match rand_int r (if loc then 10 else 9) with
            | 0 -> ListSpec.LBase (adr ())
            | 1 -> ListSpec.LBasex (idx ())
            | 2 -> ListSpec.LStartxEndx (idx (), idx ())
            | 3 -> ListSpec.LStartxLength (idx (), n_of_int (pick r [| 0; 1; 16 |]))
            | 4 | 5 -> ListSpec.LOffsetPair (ofs (), ofs ())
            | 6 -> ListSpec.LStartEnd (adr (), adr ())
            | 7 -> let a = adr () in ListSpec.LStartEnd (a, a)
            | 8 -> ListSpec.LStartLength (adr (), n_of_int (pick r [| 0; 1; 16 |]))
            | _ -> ListSpec.LDefault) in
        let dies = die_offsets ~asz ~ver ~low_pc:(low_pc <> 0) ~line:false in
        let data () = if rand_int r 3 = 0 then gen_expr r ~be ~asz ~ver ~dies ~depth:1
                      else pick r [| [0x50]; [0x91; 0x78]; [0x35; 0x9f]; [0x9c] |] in
        let ents = List.init (1 + rand_int r 6) (fun _ -> entry ()) in
        let body =
          if loc then ListSpec.enc_loc_list c false (List.map (fun e ->
            (e, if ListSpec.has_data e then bytes_of_ints (data ()) else [])) ents)
          else ListSpec.enc_rng_list c ents in
        let body = List.map int_of_byte body in
        let body = if rand_int r 20 = 0 then (match List.rev body with [] -> [] | _ :: t -> List.rev t) else body in
        let pre = rand_bytes r (rand_int r 3) in
        let sect = pre @ body in
        let off = List.length pre in
        let case = Printf.sprintf "c12.listconv %s %d %d %d %d %d %s %s %d" (if loc then "loc" else "rng")
                     (if be then 1 else 0) asz ver mode low_pc (hex_of_ints daddr) (hex_of_ints sect) off in
        both emit case (fun dbg ->
          let base = if ver >= 5 then 8 else 0 in
          let ua i = ListsRd.get_address be (bytes_of_ints daddr) (n_of_int asz) (n_of_int base) i in
          let inp = bytes_of_ints body in
          let table : OpWr.wop list list ref = ref [] in
          let idx_of o = let rec go k = function [] -> None | d :: t -> if Z.equal (z_of_n o) (Z.of_int d) then Some k else go (k + 1) t in go 0 dies in
          let unit_ref o = match idx_of o with Some k -> Res.Ok (n_of_int k) | None -> Res.Err Res.CInvalidUnitRef in
          let info_ref o = match idx_of o with Some k -> Res.Ok (OpWr.REntry (N0, n_of_int k)) | None -> Res.Err Res.CInvalidDebugInfoRef in
          let xconv (d : Byte0.byte list) : Byte0.byte list Res.res =
            match ConvertExpr.conv_expr dbg (dec_enc ~be ~asz ~ver) (Some ua) (cvt_mode mode) unit_ref info_ref d with
            | Res.Ok ex -> let k = List.length !table in table := !table @ [ex];
                           Res.Ok [byte_of_int (k / 256); byte_of_int (k land 255)]
            | Res.Err x -> Res.Err x | Res.Panic -> Res.Panic | Res.OutOfFuel -> Res.OutOfFuel in
          let expr (k : Byte0.byte list) = match k with
            | [a; b] -> spf "Expression{operations:%s}" (wexpr (List.nth !table (int_of_byte a * 256 + int_of_byte b)))
            | _ -> "?" in
          if loc then
            (match ListsRd.loc_raw_drain dbg c bare inp with
             | Res.Ok evs ->
                 show_res (fun l -> "[" ^ String.concat "," (List.map (function
                   | W.LBase a -> spf "BaseAddress{address:%s}" (laddr a)
                   | W.LOffsetPair (b, e, d) -> spf "OffsetPair{begin:%s,end:%s,data:%s}" (sn b) (sn e) (expr d)
                   | W.LStartEnd (b, e, d) -> spf "StartEnd{begin:%s,end:%s,data:%s}" (laddr b) (laddr e) (expr d)
                   | W.LStartLength (b, len, d) -> spf "StartLength{begin:%s,length:%s,data:%s}" (laddr b) (sn len) (expr d)
                   | W.LDefault d -> spf "DefaultLocation{data:%s}" (expr d)) l) ^ "]")
                   (ConvertLists.conv_loc_list (lcvt mode) ua xconv (n_of_int low_pc) evs)
             | Res.Err x -> "err " ^ Errnames.name x | Res.Panic -> "panic" | Res.OutOfFuel -> "outoffuel")
          else
            (match ListsRd.rng_raw_drain dbg c bare inp with
             | Res.Ok evs ->
                 show_res (fun l -> "[" ^ String.concat "," (List.map (function
                   | W.RBase a -> spf "BaseAddress{address:%s}" (laddr a)
                   | W.ROffsetPair (b, e) -> spf "OffsetPair{begin:%s,end:%s}" (sn b) (sn e)
                   | W.RStartEnd (b, e) -> spf "StartEnd{begin:%s,end:%s}" (laddr b) (laddr e)
                   | W.RStartLength (b, len) -> spf "StartLength{begin:%s,length:%s}" (laddr b) (sn len)) l) ^ "]")
                   (ConvertLists.conv_range_list (lcvt mode) ua (n_of_int low_pc) evs)
             | Res.Err x -> "err " ^ Errnames.name x | Res.Panic -> "panic" | Res.OutOfFuel -> "outoffuel"))
      done)

(* ---- c12.attrconv ---- *)
let () =
  let open Cx in
  let acvt mode a = match cvt_mode mode a with
    | None -> None | Some (OpWr.AConst v) -> Some (UnitWr.AConst v) | Some (OpWr.ASym (s, x)) -> Some (UnitWr.ASym (s, x)) in
  let show_aval (v : UnitWr.aval) : string =
    let c1 nm ty x = spf "%s(%s(%s))" nm ty (sn x) in
    match v with
    | UnitWr.AvAddress (UnitWr.AConst x) -> spf "Address(Constant(%s))" (sn x)
    | UnitWr.AvAddress (UnitWr.ASym (s, a)) -> spf "Address(Symbol{symbol:%s,addend:%s})" (sn s) (sz a)
    | UnitWr.AvBlock b -> spf "Block(%s)" (bytes_dbg b)
    | UnitWr.AvData1 x -> spf "Data1(%s)" (sn x) | UnitWr.AvData2 x -> spf "Data2(%s)" (sn x)
    | UnitWr.AvData4 x -> spf "Data4(%s)" (sn x) | UnitWr.AvData8 x -> spf "Data8(%s)" (sn x)
    | UnitWr.AvData16 x -> spf "Data16(%s)" (sn x)
    | UnitWr.AvSdata z -> spf "Sdata(%s)" (sz z) | UnitWr.AvUdata x -> spf "Udata(%s)" (sn x)
    | UnitWr.AvImplicitConst z -> spf "ImplicitConst(%s)" (sz z)
    | UnitWr.AvFlag b -> spf "Flag(%b)" b | UnitWr.AvFlagPresent -> "FlagPresent"
    | UnitWr.AvDebugInfoRefSup x -> c1 "DebugInfoRefSup" "DebugInfoOffset" x
    | UnitWr.AvDebugMacinfoRef x -> c1 "DebugMacinfoRef" "DebugMacinfoOffset" x
    | UnitWr.AvDebugMacroRef x -> c1 "DebugMacroRef" "DebugMacroOffset" x
    | UnitWr.AvDebugTypesRef x -> c1 "DebugTypesRef" "DebugTypeSignature" x
    | UnitWr.AvDebugStrRefSup x -> c1 "DebugStrRefSup" "DebugStrOffset" x
    | UnitWr.AvString b -> spf "String(%s)" (bytes_dbg b)
    | UnitWr.AvEncoding x -> c1 "Encoding" "DwAte" x | UnitWr.AvDecimalSign x -> c1 "DecimalSign" "DwDs" x
    | UnitWr.AvEndianity x -> c1 "Endianity" "DwEnd" x | UnitWr.AvAccessibility x -> c1 "Accessibility" "DwAccess" x
    | UnitWr.AvVisibility x -> c1 "Visibility" "DwVis" x | UnitWr.AvVirtuality x -> c1 "Virtuality" "DwVirtuality" x
    | UnitWr.AvLanguage x -> c1 "Language" "DwLang" x | UnitWr.AvAddressClass x -> c1 "AddressClass" "DwAddr" x
    | UnitWr.AvIdentifierCase x -> c1 "IdentifierCase" "DwId" x | UnitWr.AvCallingConvention x -> c1 "CallingConvention" "DwCc" x
    | UnitWr.AvInline x -> c1 "Inline" "DwInl" x | UnitWr.AvOrdering x -> c1 "Ordering" "DwOrd" x
    | UnitWr.AvFileIndex None -> "FileIndex(None)"
    | UnitWr.AvFileIndex (Some i) -> spf "FileIndex(Some(FileId(%s)))" (sn i)
    | _ -> "unmodelled" in
  register "c12.attrconv" ~doc:"ConvertAttr.conv_attr vs ConvertUnit::convert_attribute_value on one generated attribute (name x form grid over the value kinds that carry their meaning in the value: constants of every form incl. implicit_const, flags, blocks, strings, addresses direct / indexed, supplementary / macro / signature offsets, class constants, file indices through a permuted file table, DwoId, plain sec_offset = InvalidAttributeValue); kinds that need the unit tables answer `outside` on both sides"
    (fun ~seed ~n emit ->
      let r = mk_rng (seed + 1204) in
      let names = [| 2; 3; 9; 11; 16; 17; 18; 19; 23; 28; 32; 50; 51; 54; 56; 57; 58; 58; 58; 59; 62; 63; 66; 67; 73; 76; 88; 88;
                     94; 101; 105; 121; 8497; 13; 37; 44; 85; 0x2137; 110 |] in
      for _ = 1 to n do
        let be = rand_int r 4 = 0 in
        let asz = pick r [| 8; 8; 4 |] in
        let ver = pick r [| 2; 3; 4; 5; 5 |] in
        let mode = pick r [| 0; 0; 0; 1; 2 |] in
        let name = pick r names in
        let nfiles = rand_int r 5 in
        let perm = List.init nfiles (fun _ -> rand_int r 8) in
        let nad = 1 + rand_int r 3 in
        let hdr = if ver >= 5 then [0; 0; 0; 0; 5; 0; asz; 0] else [] in
        let daddr = hdr @ List.concat (List.init nad (fun k ->
          fixed be asz (match rand_int r 10 with 0 -> Z.of_int 0xdead | 1 -> Z.of_string "2147483648" | _ -> Z.of_int (0x2000 + 16 * k)))) in
        let small () = Z.of_int (pick r [| 0; 1; 2; 3; 4; 5; 7; 8; 127; 128; 255; 256; 65535; 65536 |]) in
        let blk () = rand_bytes r (rand_int r 5) in
        let ic = ref 0 in
        let (form, data) : int * int list =
          match rand_int r 30 with
          | 0 -> (1, fixed be asz (pick r [| Z.of_int 4096; Z.zero; Z.of_int 0xdead; Z.of_string "2147483648" |]))
          | 1 -> let b = blk () in (3, fixed be 2 (Z.of_int (List.length b)) @ b)
          | 2 -> let b = blk () in (4, fixed be 4 (Z.of_int (List.length b)) @ b)
          | 3 -> let b = blk () in (9, uleb (Z.of_int (List.length b)) @ b)
          | 4 -> let b = blk () in (10, List.length b :: b)
          | 5 -> (5, fixed be 2 (Z.of_int (rand_int r 65536)))
          | 6 -> (6, fixed be 4 (small ()))
          | 7 -> (7, fixed be 8 (if rand_bool r then small () else boundary_z64 r))
          | 8 | 9 | 10 -> (11, [rand_int r 6])
          | 11 -> (8, List.init (rand_int r 5) (fun _ -> 97 + rand_int r 26) @ [0])
          | 12 -> (12, [pick r [| 0; 1; 2; 255 |]])
          | 13 -> (13, sleb (if rand_bool r then Z.neg (small ()) else small ()))
          | 14 | 15 -> (15, uleb (if rand_int r 4 = 0 then boundary_z64 r else small ()))
          | 16 -> (25, [])
          | 17 | 18 | 19 -> ic := pick r [| 0; 1; 2; 3; 4; 7; -1; 300 |]; (33, [])
          | 20 -> (30, rand_bytes r 16)
          | 21 -> (32, fixed be 8 (boundary_z64 r))
          | 22 -> (23, fixed be 4 (small ()))
          | 23 -> (27, uleb (Z.of_int (rand_int r (nad + 1))))
          | 24 -> (41, [rand_int r (nad + 1)])
          | 25 -> (28, fixed be 4 (small ()))
          | 26 -> (36, fixed be 8 (small ()))
          | 27 -> (29, fixed be 4 (small ()))
          | 28 -> (pick r [| 0x1f20; 0x1f21; 0x1f01 |], (fun f -> f) (fixed be 4 (Z.of_int (rand_int r 3))))
          | _ -> (pick r [| 19; 14; 24; 17 |], [])   (* fixed up below *) in
        (* forms of kinds outside the model need well-formed data too *)
        let (form, data) = match form with
          | 19 -> (19, fixed be 4 (Z.of_int 12)) | 14 -> (14, fixed be 4 Z.zero) | 24 -> (24, [1; 0x50]) | 17 -> (17, [12])
          | 0x1f01 -> (0x1f01, uleb (Z.of_int (rand_int r (nad + 1))))
          | _ -> (form, data) in
        let case = Printf.sprintf "c12.attrconv %d %d %d %d %s %s %d %d %d %s" (if be then 1 else 0) asz ver mode
                     (if perm = [] then "-" else String.concat "," (List.map string_of_int perm)) (hex_of_ints daddr) name form !ic (hex_of_ints data) in
        let icv = !ic in
        both emit case (fun dbg ->
          let e = { FormSpec.version = n_of_int ver; fmt64 = false; address_size = n_of_int asz; be = be } in
          let spec = { Attr.at_name = n_of_int name; at_form = n_of_int form; at_implicit = cz_of_int icv } in
          let base = if ver >= 5 then 8 else 0 in
          let ua i = ListsRd.get_address be (bytes_of_ints daddr) (n_of_int asz) (n_of_int base) i in
          match Attr.parse_attribute dbg e spec (bytes_of_ints data) with
          | Res.Ok (raw, _) ->
              (match ConvertAttr.conv_attr (n_of_int ver) (List.map n_of_int perm) (acvt mode) ua (n_of_int form) (n_of_int name) raw with
               | Res.Ok None -> "ok outside"
               | Res.Ok (Some v) -> "ok " ^ show_aval v
               | Res.Err x -> "err " ^ Errnames.name x
               | Res.Panic -> "panic" | Res.OutOfFuel -> "outoffuel")
          | _ -> "setup-err")
      done)
