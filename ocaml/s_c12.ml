(* s_c12.ml — streams for C12 (read→write conversion preserves meaning or fails). Impl-side oracles:
   expected token `ok`; the harness prints `ok same|err …|skip …` or `convert-mismatch <classes>` /
   `idempotence-mismatch …` / `reread-mismatch …`. *)
open Conv
open Streams

let ok emit case = emit case "ok" "ok"

let uleb (z : Z.t) : int list =
  let rec go z acc =
    let b = Z.to_int (Z.logand z (Z.of_int 0x7f)) in
    let z' = Z.shift_right z 7 in
    if Z.sign z' = 0 then List.rev (b :: acc) else go z' ((b lor 0x80) :: acc) in
  go z []
let sleb (z : Z.t) : int list =
  let rec go z acc =
    let b = Z.to_int (Z.logand z (Z.of_int 0x7f)) in
    let s = Z.shift_right z 6 in
    if Z.sign s = 0 || Z.equal s Z.minus_one then List.rev (b :: acc)
    else go (Z.shift_right z 7) ((b lor 0x80) :: acc) in
  go z []
let le n (v : Z.t) = List.init n (fun i -> Z.to_int (Z.logand (Z.shift_right v (8 * i)) (Z.of_int 255)))
let fixed be n v = if be then List.rev (le n v) else le n v

let p k = Z.shift_left Z.one k
let tame = ref true
let offsets r : Z.t =
  if !tame then Z.of_int (8 * rand_int r 64) else
  match rand_int r 14 with
  | 0 -> Z.zero | 1 -> Z.one | 2 -> Z.of_int 8 | 3 -> Z.of_int 16 | 4 -> Z.pred (p 31) | 5 -> p 31
  | 6 -> p 32 | 7 -> Z.pred (p 63) | 8 -> Z.of_int (rand_int r 4096) | 9 -> Z.of_int 127 | 10 -> Z.of_int 128
  | 11 -> Z.succ (p 31) | _ -> Z.of_int (8 * rand_int r 64)
let soffsets r : Z.t =
  let z = offsets r in
  if rand_bool r then Z.neg z else z
let reg r = if !tame then rand_int r 64 else match rand_int r 8 with 0 -> 0 | 1 -> 63 | 2 -> 64 | 3 -> 16 | 4 -> 7 | 5 -> 65535 | 6 -> 200 | _ -> rand_int r 32

(* one random CFA instruction (raw bytes) *)
let cfa_insn r be asz : int list =
  let z i = Z.of_int i in
  match rand_int r 26 with
  | 0 -> [0x40 lor (1 + rand_int r 63)]                                    (* advance_loc *)
  | 1 -> [0x02; pick r [| 1; 0x3f; 0x40; 0xff |]]                           (* advance_loc1 *)
  | 2 -> 0x03 :: fixed be 2 (z (pick r (if !tame then [| 1; 0xff; 0x100 |] else [| 1; 0xff; 0x100; 0xffff |])))       (* advance_loc2 *)
  | 3 -> 0x04 :: fixed be 4 (pick r (if !tame then [| z 1; z 0x100 |] else [| z 1; z 0xffff; z 0x10000; Z.pred (p 32); p 31 |])) (* advance_loc4 *)
  | 4 -> [0x80 lor (reg r land 63)] @ uleb (offsets r)                      (* offset *)
  | 5 -> [0xc0 lor (reg r land 63)]                                         (* restore *)
  | 6 -> 0x05 :: uleb (z (reg r)) @ uleb (offsets r)                        (* offset_extended *)
  | 7 -> 0x06 :: uleb (z (reg r))                                           (* restore_extended *)
  | 8 -> 0x07 :: uleb (z (reg r))                                           (* undefined *)
  | 9 -> 0x08 :: uleb (z (reg r))                                           (* same_value *)
  | 10 -> 0x09 :: uleb (z (reg r)) @ uleb (z (reg r))                       (* register *)
  | 11 -> [0x0a]                                                            (* remember_state *)
  | 12 -> [0x0b]                                                            (* restore_state *)
  | 13 -> 0x0c :: uleb (z (reg r)) @ uleb (offsets r)                       (* def_cfa *)
  | 14 -> 0x0d :: uleb (z (reg r))                                          (* def_cfa_register *)
  | 15 -> 0x0e :: uleb (offsets r)                                          (* def_cfa_offset *)
  | 16 -> let e = [0x70 + rand_int r 8; rand_int r 128] in 0x0f :: uleb (z (List.length e)) @ e   (* def_cfa_expression breg,off *)
  | 17 -> let e = [0x70 + rand_int r 8; rand_int r 64; 0x06] in 0x10 :: uleb (z (reg r)) @ uleb (z (List.length e)) @ e
  | 18 -> 0x11 :: uleb (z (reg r)) @ sleb (soffsets r)                      (* offset_extended_sf *)
  | 19 -> 0x12 :: uleb (z (reg r)) @ sleb (soffsets r)                      (* def_cfa_sf *)
  | 20 -> 0x13 :: sleb (soffsets r)                                         (* def_cfa_offset_sf *)
  | 21 -> 0x14 :: uleb (z (reg r)) @ uleb (offsets r)                       (* val_offset *)
  | 22 -> 0x15 :: uleb (z (reg r)) @ sleb (soffsets r)                      (* val_offset_sf *)
  | 23 -> let e = [0x50 + rand_int r 32] in 0x16 :: uleb (z (reg r)) @ uleb (z (List.length e)) @ e  (* val_expression *)
  | 24 -> 0x2e :: uleb (offsets r)                                          (* GNU_args_size *)
  | _ -> ignore asz; [0x00]

let () =
  register "c12.corpus" ~doc:"every non-split corpus variant: units (forest, attribute meanings, line rows), .eh_frame and .debug_frame unwind rows; exhaustive over the corpus"
    (fun ~seed:_ ~n:_ emit ->
      let vs = S_c01.variants () in
      Array.iter (fun v ->
        let has s = try let _ = String.index v '_' in ignore s; true with Not_found -> true in
        ignore has;
        let is_split = List.exists (fun suf ->
          let ls = String.length suf and lv = String.length v in lv >= ls && String.sub v (lv - ls) ls = suf)
          ["_dwo"; "_dwp"; "_ldwp"; "_skel"] in
        if not is_split then ok emit (Printf.sprintf "c12.corpus %s units" v);
        if not is_split || (String.length v > 5 && String.sub v (String.length v - 5) 5 = "_skel") then begin
          ok emit (Printf.sprintf "c12.corpus %s ehframe" v);
          ok emit (Printf.sprintf "c12.corpus %s debugframe" v) end) vs);
  register "c12.cfi" ~doc:"generated one-CIE/one-FDE frame sections: every DW_CFA opcode with boundary operands, large/odd/zero alignment factors, both sections, both endians, address sizes 4/8, CIE versions 1/3/4"
    (fun ~seed ~n emit ->
      let r = mk_rng seed in
      let cafs = [| "1"; "1"; "2"; "4"; "255"; "256"; "65536"; "4294967296"; "0"; "3" |] in
      let dafs = [| "-8"; "-4"; "-1"; "1"; "8"; "127"; "128"; "-128"; "-129"; "2147483648"; "0"; "-8"; "-8" |] in
      for _ = 1 to n do
        tame := rand_int r 10 < 7;
        let eh = rand_bool r in
        let be = rand_int r 4 = 0 in
        let asz = pick r [| 8; 8; 4 |] in
        let version = if eh then 1 else pick r [| 1; 3; 4 |] in
        let caf = if !tame then pick r [| "1"; "1"; "2"; "4" |] else pick r cafs
        and daf = if !tame then pick r [| "-8"; "-4"; "8"; "1"; "-1" |] else pick r dafs in
        let ra = pick r [| 16; 16; 0; 255; 30 |] in
        let cie = List.concat (List.init (rand_int r 4) (fun _ ->
          match rand_int r 3 with
          | 0 -> 0x0c :: uleb (Z.of_int 7) @ uleb (Z.of_int 8)
          | 1 -> [0x80 lor 16] @ uleb (Z.of_int 1)
          | _ -> cfa_insn r be asz)) in
        let fde = List.concat (List.init (rand_int r 10) (fun _ -> cfa_insn r be asz)) in
        let initial = pick r [| "4096"; "0"; "4294963200"; "1" |] in
        let range = if !tame then "1048576" else pick r [| "256"; "65536"; "4294967295"; "16"; "1048576" |] in
        ok emit (Printf.sprintf "c12.cfi %d %d %d %d %s %s %d %s %s %s %s" (if eh then 1 else 0) (if be then 1 else 0)
                   asz version caf daf ra (hex_of_ints cie) initial range (hex_of_ints fde))
      done);
  let line_stream name vliw = register name ~doc:"generated v2-4 line programs inside a minimal unit: every standard/extended/special opcode incl. mid-sequence set_address, fixed_advance_pc, const_add_pc, several sequences; header parameter grid (c12.vliw: maximum_operations_per_instruction > 1)"
    (fun ~seed ~n emit ->
      let r = mk_rng seed in
      for _ = 1 to n do
        let be = rand_int r 4 = 0 in
        let asz = pick r [| 8; 4 |] in
        let version = if vliw then 4 else pick r [| 2; 3; 4 |] in
        let min_len = pick r [| 1; 1; 2; 4 |] in
        let max_ops = if vliw && version >= 4 then pick r [| 2; 4 |] else 1 in
        let line_base = pick r [| -5; -3; -1; 0; -10; -128 |] in
        let line_range = pick r [| 14; 12; 10; 1; 4; 100; 200; 255 |] in
        let opcode_base = pick r [| 13; 13; 13; 10; 1; 14; 20 |] in
        let ext op args = 0 :: uleb (Z.of_int (1 + List.length args)) @ (op :: args) in
        let std op args = if op < opcode_base then op :: args else [] in
        let addr = ref (4096 * (1 + rand_int r 4)) in
        let set_address () = ext 2 (fixed be asz (Z.of_int !addr)) in
        let seqs = 1 + rand_int r 3 in
        let prog = List.concat (List.init seqs (fun _ ->
          (* sequence start: usually an address; sometimes a tombstone address (-1 / -2 at the address size:
             the reader drops the whole sequence), sometimes no DW_LNE_set_address at all (starts at 0) *)
          let head = match rand_int r 8 with
            | 0 -> let ones = Z.pred (Z.shift_left Z.one (8 * asz)) in
                   ext 2 (fixed be asz (if rand_bool r then ones else Z.pred ones))
            | 1 -> []
            | _ -> set_address () in
          let body = List.concat (List.init (1 + rand_int r 10) (fun _ ->
            match rand_int r 18 with
            | 0 -> std 1 []
            | 1 -> std 2 (uleb (Z.of_int (rand_int r 300)))
            | 2 -> std 3 (sleb (Z.of_int (rand_int r 40 - 10)))
            | 3 -> std 4 (uleb (Z.of_int (1 + rand_int r 2)))
            | 4 -> std 5 (uleb (Z.of_int (rand_int r 100)))
            | 5 -> std 6 []
            | 6 -> std 7 []
            | 7 -> std 8 []
            | 8 -> std 9 (fixed be 2 (Z.of_int (rand_int r 1000)))
            | 9 -> std 10 []
            | 10 -> std 11 []
            | 11 -> std 12 (uleb (Z.of_int (rand_int r 4)))
            | 12 -> ext 4 (uleb (Z.of_int (rand_int r 10)))
            | 13 -> (* mid-sequence set_address, forwards *)
                addr := !addr + 0x100 + rand_int r 0x1000; set_address () @ std 1 []
            | _ -> if opcode_base <= 255 then [opcode_base + rand_int r (256 - opcode_base)] else [])) in
          addr := !addr + 0x10000;
          head @ body @ std 2 (uleb (Z.of_int (1 + rand_int r 8))) @ ext 1 [])) in
        ok emit (Printf.sprintf "%s %d %d %d %d %d %d %d %d %s" name (if be then 1 else 0) asz (if vliw then 4 else version) min_len max_ops
                   line_base line_range opcode_base (hex_of_ints prog))
      done) in
  line_stream "c12.line" false;
  line_stream "c12.vliw" true
let init () = ()
(* c12.arith: Model/ConvertArith.v vs write::cfi::convert, one arithmetic step per case *)
let () =
  let show_z r = show_res (fun v -> string_of_cz v) r in
  register "c12.arith" ~doc:"conversion arithmetic of CFI offsets, factored offsets, alignment factors and advance accumulation: boundary values around 2^7, 2^8, 2^31, 2^32, 2^63"
    (fun ~seed ~n emit ->
      let r = mk_rng seed in
      let p k = Z.shift_left Z.one k in
      let around = List.concat_map (fun k -> [Z.pred (p k); p k; Z.succ (p k)]) [0; 7; 8; 15; 16; 30; 31; 32; 33; 62; 63] in
      let u64s = Z.zero :: Z.pred (p 64) :: around in
      let off z = both emit (Printf.sprintf "c12.arith off %s" (Z.to_string z)) (fun _ ->
        show_z (ConvertArith.convert_offset (n_of_z z))) in
      List.iter off u64s;
      let i64 z = Z.numbits z <= 63 || Z.equal z (Z.neg (p 63)) in
      let foff f d = if i64 f && i64 d then
        both emit (Printf.sprintf "c12.arith foff %s %s" (Z.to_string f) (Z.to_string d)) (fun _ ->
          match ConvertArith.convert_factored_offset (cz_of_z f) (cz_of_z d) with
          (* the conversion succeeds with i32::MIN, but the WRITER cannot factor it by -1 (2^31 does not fit i32) *)
          | Res.Ok v when Z.equal (z_of_cz v) (Z.neg (p 31)) && Z.equal d Z.minus_one -> "writeerr InvalidFrameDataOffset"
          | x -> show_z x) in
      let small = [Z.of_int (-8); Z.of_int (-4); Z.minus_one; Z.one; Z.of_int 2; Z.of_int 8; Z.of_int 127; Z.of_int (-128)] in
      List.iter (fun f -> List.iter (fun d -> foff f d; foff (Z.neg f) d) small) (List.filter i64 around);
      let fac c d = if i64 d then both emit (Printf.sprintf "c12.arith fac %s %s" (Z.to_string c) (Z.to_string d)) (fun _ ->
        show_res (fun (c, d) -> string_of_n c ^ " " ^ string_of_cz d) (ConvertArith.convert_factors (n_of_z c) (cz_of_z d))) in
      List.iter (fun c -> List.iter (fun d -> fac c d)
        [Z.of_int (-129); Z.of_int (-128); Z.of_int (-1); Z.one; Z.of_int 127; Z.of_int 128; Z.of_int 8; p 31])
        [Z.one; Z.of_int 2; Z.of_int 255; Z.of_int 256; Z.of_int 257; p 32; Z.of_int 4];
      let adv o dl c = both emit (Printf.sprintf "c12.arith adv %s %s %s" (Z.to_string o) (Z.to_string dl) (Z.to_string c)) (fun _ ->
        (* first advance o*c establishes the running offset, then delta*c is added *)
        match ConvertArith.convert_advance N0 (n_of_z o) (n_of_z c) with
        | Res.Ok o' -> show_res string_of_n (ConvertArith.convert_advance o' (n_of_z dl) (n_of_z c))
        | x -> show_res string_of_n x) in
      let u32s = List.filter (fun z -> Z.numbits z <= 32) (Z.zero :: around) in
      List.iter (fun o -> List.iter (fun dl -> List.iter (fun c -> adv o dl c) [Z.one; Z.of_int 2; Z.of_int 255])
        [Z.one; Z.of_int 0xffff; Z.pred (p 32); p 31]) [Z.zero; Z.one; p 31; Z.pred (p 32); Z.of_int 0x7fffffff];
      ignore u32s;
      for _ = 1 to n do
        match rand_int r 3 with
        | 0 -> off (boundary_z64 r)
        | 1 -> let f = boundary_z64 r in let f = if Z.numbits f > 63 then Z.sub f (p 64) else f in foff f (List.nth small (rand_int r 8))
        | _ -> adv (Z.of_int (rand_int r 100000)) (Z.logand (boundary_z64 r) (Z.pred (p 32))) (Z.of_int (1 + rand_int r 255))
      done)
