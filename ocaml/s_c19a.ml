(* s_c19a.ml — streams for the attribute level of C19 (coq/Model/FilterAttrs.v).  Harness: harness/src/c1901.rs.

   The input .debug_info/.debug_abbrev is HAND-BUILT (same deterministic encoder on both sides), so the model
   runs on the REAL layout: real unit offsets, header sizes, lengths, DIE offsets and operand values.

   case line:  c1901.attrs <mode 0 strict|1 tolerant> <ver 4|5> <fmt 4|8> <asz> <forest hex> <required hex>
               c1901.split <mode> 5 <fmt> <asz> <forest hex (the .dwo section)> <required hex>
               c1901.bounds <ver> <fmt> <asz> <forest hex> <unit#> <o> <x>
   forest := unit* ; unit := FE entry* ; entry := depth tag_hi tag_lo nattrs attr*
   attr   := name_hi name_lo kind ...
     kind 0  DW_FORM_data1 val            kind 1  DW_FORM_flag_present
     kind 2  unit-relative reference: form (11 ref1, 12 ref2, 13 ref4, 14 ref8, 15 ref_udata) tkind tval
     kind 3  DW_FORM_ref_addr: tkind tval
     kind 4  DW_FORM_exprloc: nops (opidx nest tkind tval)*
             opidx 0 deref_type 1 regval_type 2 const_type 3 convert 4 reinterpret 5 GNU_parameter_ref 6 call4
                   7 call_ref 8 implicit_pointer 9 GNU_variable_value 10 call2
   target (tkind tval): 0 DIE #tval, 1 root DIE of unit #tval (own unit for unit-relative operands), 2 one byte
     into that root DIE, 3 far out of bounds, 4 zero, and for unit-relative operands only: 5 OUT OF BOUNDS of the
     own unit and exactly on DIE #tval of a LATER unit (section offset of that DIE minus start of this unit),
     6 first byte behind the unit, 7 last byte of the unit, 8 last byte of the unit header, 9 exactly on the
     root DIE of the next unit.  The value is truncated to the width of the form / operand.
   Every DIE also has DW_AT_name "e%03d" (global preorder index = identity); roots are named "r%03d".
   result: `ok k:p|name.body>t>t|name.body ...` per emitted DIE (k ascending, p parent identity or r, then every
   attribute of the output except DW_AT_name/DW_AT_sibling: name in hex, body, the DIEs it references). *)
open Conv
open Streams

type tg = int * int
type aop = { opi : int; nest : int; otg : tg }
type akind = Plain of int | Flag | URef of int * tg | IRef of tg | Expr of aop list
type gattr = { name : int; k : akind }
type gent = { depth : int; tag : int; attrs : gattr list }
type forest = gent list list

let byte b i = Buffer.add_string b (Printf.sprintf "%02x" (i land 255))
let enc_forest (f : forest) : string =
  let b = Buffer.create 256 in
  List.iter (fun u ->
    byte b 0xfe;
    List.iter (fun e ->
      byte b e.depth; byte b (e.tag lsr 8); byte b e.tag; byte b (List.length e.attrs);
      List.iter (fun a ->
        byte b (a.name lsr 8); byte b a.name;
        match a.k with
        | Plain v -> byte b 0; byte b v
        | Flag -> byte b 1
        | URef (form, (tk, tv)) -> byte b 2; byte b form; byte b tk; byte b tv
        | IRef (tk, tv) -> byte b 3; byte b tk; byte b tv
        | Expr ops -> byte b 4; byte b (List.length ops);
            List.iter (fun o -> byte b o.opi; byte b o.nest; byte b (fst o.otg); byte b (snd o.otg)) ops) e.attrs) u) f;
  if Buffer.length b = 0 then "-" else Buffer.contents b

(* ---------------------------------------------------------------- the layout of the hand-built section *)
let osz fmt = if fmt = 8 then 8 else 4
let hdr_size ver fmt (hx, _) = (if fmt = 8 then 12 else 4) + 2 + osz fmt + 1 + (if ver >= 5 then 1 else 0) + hx
let form_size = function 0x11 -> 1 | 0x12 -> 2 | 0x13 -> 4 | 0x14 -> 8 | _ -> 5
let op_base fmt = function
  | 0 -> 7 | 1 -> 7 | 2 -> 8 | 3 -> 6 | 4 -> 6 | 5 -> 5 | 6 -> 5
  | 7 -> 1 + osz fmt | 8 -> 2 + osz fmt | 9 -> 1 + osz fmt | _ -> 3
let rec wrap n sz = if n = 0 then sz else wrap (n - 1) (2 + sz)
let op_size fmt o = wrap o.nest (op_base fmt o.opi)
let attr_size fmt a = match a.k with
  | Plain _ -> 1 | Flag -> 0 | URef (form, _) -> form_size form | IRef _ -> osz fmt
  | Expr ops -> 1 + List.fold_left (fun s o -> s + op_size fmt o) 0 ops
let ent_size fmt e = 2 + 5 + List.fold_left (fun s a -> s + attr_size fmt a) 0 e.attrs
let expr_fits fmt e = List.for_all (fun a -> attr_size fmt a < 120) e.attrs

type layout = { uoff : int array; hdr : int; ulen : int array; eoff : (int * int) array (* unit#, unit offset *) }

let layout ver fmt extra (f : forest) : layout =
  let hdr = hdr_size ver fmt extra in
  let nu = List.length f in
  let uoff = Array.make (nu + 1) 0 and ulen = Array.make nu 0 in
  let eoffs = ref [] in
  List.iteri (fun j u ->
    let pos = ref (hdr + 7 + snd extra) in
    let a = Array.of_list u in
    Array.iteri (fun i e ->
      eoffs := (j, !pos) :: !eoffs;
      pos := !pos + ent_size fmt e;
      let dnext = if i + 1 < Array.length a then a.(i + 1).depth else 0 in
      if dnext <= e.depth then pos := !pos + (e.depth - dnext)) a;
    ulen.(j) <- !pos - hdr;
    uoff.(j + 1) <- uoff.(j) + !pos) f;
  { uoff; hdr; ulen; eoff = Array.of_list (List.rev !eoffs) }

let far_unit = 0x7fff0000
let far_info = 0x7ffffff0
let mask bits v = if bits >= 62 then v else v land ((1 lsl bits) - 1)

(* numeric operand of a site of unit j *)
let value (l : layout) j ~info ~bits ((tk, tv) : tg) : int =
  let nu = Array.length l.ulen in
  let v =
    if info then
      (match tk with
       | 0 -> if tv < Array.length l.eoff then (let (tj, o) = l.eoff.(tv) in l.uoff.(tj) + o) else far_info
       | 1 -> if tv < nu then l.uoff.(tv) + l.hdr else far_info
       | 2 -> if tv < nu then l.uoff.(tv) + l.hdr + 1 else far_info
       | 4 -> 0
       | _ -> far_info)
    else
      (match tk with
       | 0 -> if tv < Array.length l.eoff && fst l.eoff.(tv) = j then snd l.eoff.(tv) else far_unit
       | 1 -> l.hdr
       | 2 -> l.hdr + 1
       | 4 -> 0
       | 5 -> if tv < Array.length l.eoff && fst l.eoff.(tv) > j
              then (let (tj, o) = l.eoff.(tv) in l.uoff.(tj) + o - l.uoff.(j)) else far_unit
       | 6 -> l.hdr + l.ulen.(j)
       | 7 -> l.hdr + l.ulen.(j) - 1
       | 8 -> l.hdr - 1
       | 9 -> if j + 1 < nu then l.uoff.(j + 1) + l.hdr - l.uoff.(j) else far_unit
       | _ -> far_unit) in
  mask bits v

let op_info opi = opi >= 7 && opi <= 9
let op_bits fmt opi = match opi with
  | 0 | 1 | 2 | 3 | 4 -> 35 | 5 | 6 -> 32 | 10 -> 16 | _ -> 8 * osz fmt
let form_bits = function 0x11 -> 8 | 0x12 -> 16 | 0x13 -> 32 | 0x14 -> 64 | _ -> 35

let refops = [| Filter.OpDerefType; Filter.OpRegvalType; Filter.OpConstType; Filter.OpConvert;
                Filter.OpReinterpret; Filter.OpParameterRef; Filter.OpCall; Filter.OpCallRef;
                Filter.OpImplicitPointer; Filter.OpVariableValue; Filter.OpCall |]

let to_model ver fmt extra (f : forest) : FilterAttrs.aunit list * layout =
  let l = layout ver fmt extra f in
  let k = ref 0 in
  let mk_attr j (a : gattr) : FilterAttrs.attr =
    let site car v = { Filter.s_car = car; s_val = n_of_int v } in
    let body, sites = match a.k with
      | Plain v -> (v, [])
      | Flag -> (0, [])
      | URef (form, t) -> (0, [ site Filter.CAttrUnit (value l j ~info:false ~bits:(form_bits form) t) ])
      | IRef t -> (0, [ site Filter.CAttrInfo (value l j ~info:true ~bits:(8 * osz fmt) t) ])
      | Expr ops -> (0, List.map (fun o ->
          site (Filter.CExpr (nat_of_int o.nest, refops.(o.opi)))
            (value l j ~info:(op_info o.opi) ~bits:(op_bits fmt o.opi) o.otg)) ops) in
    { FilterAttrs.at_name = n_of_int a.name; at_body = n_of_int body; at_sites = sites } in
  let mk_entry j (e : gent) : FilterAttrs.aentry =
    let off = snd l.eoff.(!k) in
    incr k;
    { FilterAttrs.ae_off = n_of_int off; ae_tag = n_of_int e.tag;
      ae_attrs = { FilterAttrs.at_name = n_of_int 3; at_body = n_of_int 0; at_sites = [] } :: List.map (mk_attr j) e.attrs } in
  let rec build j d (es : FilterAttrs.aentry list) (ds : int list) =
    match es, ds with
    | e :: es', d' :: ds' when d' = d ->
        let kids, es1, ds1 = build j (d + 1) es' ds' in
        let sibs, es2, ds2 = build j d es1 ds1 in
        (FilterAttrs.ANode (e, kids) :: sibs, es2, ds2)
    | _ -> ([], es, ds) in
  let units = List.mapi (fun j u ->
    let ents = List.map (mk_entry j) u in
    let trees, left, _ = build j 1 ents (List.map (fun e -> e.depth) u) in
    if left <> [] then failwith "s_c19a: ill-formed depth sequence";
    { FilterAttrs.au_off = n_of_int l.uoff.(j); au_hdr = n_of_int l.hdr; au_len = n_of_int l.ulen.(j);
      au_kids = trees }) f in
  (units, l)

(* section offset -> printed identity *)
let ident_table (l : layout) : (int, string) Hashtbl.t =
  let h = Hashtbl.create 64 in
  Array.iteri (fun k (j, o) -> Hashtbl.replace h (l.uoff.(j) + o) (string_of_int k)) l.eoff;
  Array.iteri (fun j _ -> Hashtbl.replace h (l.uoff.(j) + l.hdr) (Printf.sprintf "r%d" j)) l.ulen;
  h

let req_fun (l : layout) (req : int list) =
  let offs = List.filter_map (fun k ->
    if k < Array.length l.eoff then (let (j, o) = l.eoff.(k) in Some (n_of_int (l.uoff.(j) + o))) else None) req in
  fun x -> List.mem x offs

let show_attrs tol ver fmt extra (f : forest) (req : int list) (dbg : bool) : string =
  let aunits, l = to_model ver fmt extra f in
  let h = ident_table l in
  let id x = try Hashtbl.find h (int_of_n x) with Not_found -> "?" in
  match FilterAttrs.convert_filtered_attrs tol dbg (req_fun l req) aunits with
  | Res.Ok (m, out) ->
      let items = List.map (fun (c : FilterAttrs.cdie) ->
        let k = (try int_of_string (id c.FilterAttrs.cd_off) with _ -> -1) in
        let p = id c.FilterAttrs.cd_parent in
        let p = if String.length p > 0 && p.[0] = 'r' then "r" else p in
        let attrs = List.filter (fun (a : FilterAttrs.cattr) -> int_of_n a.FilterAttrs.ca_name <> 3) c.FilterAttrs.cd_attrs in
        let s = String.concat "" (List.map (fun (a : FilterAttrs.cattr) ->
          Printf.sprintf "|%x.%d%s" (int_of_n a.FilterAttrs.ca_name) (int_of_n a.FilterAttrs.ca_body)
            (String.concat "" (List.map (fun i ->
               match FilterAttrs.im_src i m with Some y -> ">" ^ id y | None -> ">dangling") a.FilterAttrs.ca_refs))) attrs) in
        (k, Printf.sprintf " %d:%s%s" k p s)) out in
      "ok" ^ String.concat "" (List.map snd (List.sort compare items))
  | Res.Err e -> "err " ^ Errnames.name e
  | Res.Panic -> "panic"
  | Res.OutOfFuel -> "outoffuel"

let show_split ver fmt (f : forest) (req : int list) (dbg : bool) : string =
  let aunits, l = to_model ver fmt (if ver >= 5 then (8, 0) else (0, 8)) f in
  let h = ident_table l in
  let id x = try Hashtbl.find h (int_of_n x) with Not_found -> "?" in
  let units = List.map FilterAttrs.unit_of aunits in
  match FilterAttrs.convert_split_filtered Filter.filter_refs dbg (req_fun l req) units with
  | Res.Ok out ->
      let items = List.map (fun (x, p) ->
        let k = (try int_of_string (id x) with _ -> -1) in
        let p = id p in
        let p = if String.length p > 0 && p.[0] = 'r' then "r" else p in
        (k, Printf.sprintf " %d:%s" k p)) out in
      "ok" ^ String.concat "" (List.map snd (List.sort compare items))
  | Res.Err e -> "err " ^ Errnames.name e
  | Res.Panic -> "panic"
  | Res.OutOfFuel -> "outoffuel"

(* ---------------------------------------------------------------- generators *)
let t_var = 0x34 and t_member = 0x0d and t_struct = 0x13 and t_base = 0x24 and t_ns = 0x39 and t_typedef = 0x16
and t_subprogram = 0x2e and t_param = 0x05 and t_ptr = 0x0f and t_block = 0x0b and t_enum = 0x04 and t_enumerator = 0x28
let tag_pool = [| t_var; t_var; t_member; t_struct; t_struct; t_base; t_ns; t_typedef; t_subprogram; t_param; t_ptr;
                  t_block; t_enum; t_enumerator |]

let ref_names = [| 0x49; 0x47; 0x31; 0x18; 0x1d; 0x41; 0x54; 0x64 |]
let loc_names = [| 0x02; 0x19; 0x2a; 0x38; 0x40; 0x46; 0x48; 0x4a |]
(* dropped by both filter_attributes; then DW_AT_GNU_locviews (seen by the filter, skipped by the converter) *)
let dropped_names = [| 0x01; 0x01; 0x72; 0x73; 0x74; 0x8c; 0x76; 0x2130; 0x2131; 0x2132; 0x2133 |]
let locviews = 0x2137
let forms = [| 0x11; 0x12; 0x13; 0x14; 0x15 |]

let gen_depths r n maxd =
  let rec go i prev acc = if i = n then List.rev acc else begin
      let d = if i = 0 then 1 else
          match rand_int r 5 with
          | 0 | 1 -> min maxd (prev + 1)
          | 2 | 3 -> prev
          | _ -> 1 + rand_int r prev in
      go (i + 1) d (d :: acc) end in
  go 0 0 []

(* a target for a site of unit j; [oob] per-mille share of malformed targets *)
let gen_target r ~info ~j ~starts ~sizes ~oob : tg =
  let nu = Array.length sizes in
  let total = Array.fold_left (+) 0 sizes in
  let later = starts.(j) + sizes.(j) in
  if rand_int r 1000 < oob then begin
    if info then (pick r [| (3, 0); (2, rand_int r nu); (2, j) |])
    else match rand_int r 9 with
      | 0 | 1 | 2 -> if later < total then (5, later + rand_int r (total - later)) else (3, 0)
      | 3 -> (6, 0) | 4 -> (7, 0) | 5 -> (8, 0)
      | 6 -> if j + 1 < nu then (9, 0) else (3, 0)
      | 7 -> (2, 0)
      | _ -> (3, 0)
  end else if info then begin
    if total = 0 || rand_int r 10 = 0 then (1, rand_int r nu) else (0, rand_int r total)
  end else begin
    if sizes.(j) = 0 || rand_int r 12 = 0 then (1, 0) else (0, starts.(j) + rand_int r sizes.(j))
  end

let gen_forest r ~fmt ~sizes ~oob ~maxattrs : forest =
  let sizes = Array.of_list sizes in
  let starts = Array.make (Array.length sizes) 0 in
  for j = 1 to Array.length sizes - 1 do starts.(j) <- starts.(j - 1) + sizes.(j - 1) done;
  Array.to_list (Array.mapi (fun j n ->
    let depths = gen_depths r n 4 in
    let tags = List.map (fun _ -> pick r tag_pool) depths in
    (* write order of gimli::write::Unit: root-level DW_TAG_base_type subtrees first; a ULEB-coded typed
       operation can only name a DIE that is written strictly earlier *)
    let da = Array.of_list depths and ta = Array.of_list tags in
    let top = Array.make n 0 in
    let cur = ref 0 in
    Array.iteri (fun i d -> if d = 1 then cur := i; top.(i) <- !cur) da;
    let key i = ((if n > 0 && ta.(top.(i)) = t_base then 0 else 1), i) in
    List.mapi (fun i d ->
      let earlier = List.filter (fun t -> compare (key t) (key i) < 0) (List.init n (fun t -> t)) in
      let na = rand_int r (maxattrs + 1) in
      let used = ref [] in
      let fresh pool = let rec go t = let x = pick r pool in if List.mem x !used && t < 20 then go (t + 1) else x in
        let x = go 0 in if List.mem x !used then None else (used := x :: !used; Some x) in
      let attrs = List.filter_map (fun _ ->
        match rand_int r 12 with
        | 0 -> (match fresh [| 0x0b; 0x0d; 0x0c; 0x2f |] with Some n -> Some { name = n; k = Plain (rand_int r 256) } | None -> None)
        | 1 -> (match fresh [| 0x3c |] with Some n -> Some { name = n; k = Flag } | None -> None)
        | 2 -> (* a dropped attribute that carries a reference (or a constant) *)
            (match fresh dropped_names with
             | Some n -> Some { name = n; k = (match rand_int r 3 with
                 | 0 -> Plain (rand_int r 256)
                 | 1 -> IRef (gen_target r ~info:true ~j ~starts ~sizes ~oob:0)
                 | _ -> URef (pick r forms, gen_target r ~info:false ~j ~starts ~sizes ~oob:0)) }
             | None -> None)
        | 3 -> (match fresh [| locviews |] with
                | Some n -> Some { name = n; k = URef (0x13, gen_target r ~info:false ~j ~starts ~sizes ~oob) }
                | None -> None)
        | 4 | 5 | 6 -> (match fresh ref_names with
                        | Some n -> Some { name = n; k = URef (pick r forms, gen_target r ~info:false ~j ~starts ~sizes ~oob) }
                        | None -> None)
        | 7 | 8 -> (match fresh ref_names with
                    | Some n -> Some { name = n; k = IRef (gen_target r ~info:true ~j ~starts ~sizes ~oob) }
                    | None -> None)
        | _ -> (match fresh loc_names with
                | Some n ->
                    let nops = 1 + rand_int r 2 in
                    let ops = List.init nops (fun _ ->
                      let opi = rand_int r 11 in
                      let info = op_info opi in
                      let nest = (match rand_int r 8 with 0 -> 1 | 1 -> 2 | _ -> 0) in
                      let t = gen_target r ~info ~j ~starts ~sizes ~oob in
                      let t = if opi <= 4 && opi <> 2 && rand_int r 6 = 0 then (4, 0) else t in
                      let opi, t =
                        if opi <= 4 && fst t = 0 then begin
                          if earlier <> [] then (opi, (0, starts.(j) + List.nth earlier (rand_int r (List.length earlier))))
                          else if opi = 2 then (6, t) else (opi, (4, 0))
                        end else (opi, t) in
                      { opi; nest; otg = t }) in
                    Some { name = n; k = Expr ops }
                | None -> None)) (List.init na (fun x -> x)) in
      { depth = d; tag = ta.(i); attrs }) depths) sizes)

let count (f : forest) = List.fold_left (fun a u -> a + List.length u) 0 f
let subsets n : int list list =
  List.init (1 lsl n) (fun m -> List.filter (fun k -> m land (1 lsl k) <> 0) (List.init n (fun k -> k)))
let random_subset r n =
  let p = pick r [| 1; 2; 3; 5 |] in
  List.filter (fun _ -> rand_int r 10 < p) (List.init n (fun k -> k))
let split_sizes r total nunits =
  let a = Array.make nunits 0 in
  for _ = 1 to total do let j = rand_int r nunits in a.(j) <- a.(j) + 1 done;
  Array.to_list a

let versions = [| (4, 4, 8); (4, 8, 8); (5, 4, 8); (5, 8, 8); (5, 4, 4); (4, 4, 4) |]

let case_attrs stream mode ver fmt asz f req =
  Printf.sprintf "%s %d %d %d %d %s %s" stream mode ver fmt asz (enc_forest f) (hex_of_ints req)

let emit_attrs emit mode ver fmt asz f req =
  if List.for_all (List.for_all (expr_fits fmt)) f then
    both emit (case_attrs "c1901.attrs" mode ver fmt asz f req) (show_attrs (mode = 1) ver fmt (0, 0) f req)

let ent ?(attrs = []) depth tag = { depth; tag; attrs }

let () =
  register "c1901.attrs"
    ~doc:"hand-built DWARF 4/5 forests (real layout on both sides) whose DIEs carry plain, flag, reference (DW_FORM_ref1/2/4/8/ref_udata/ref_addr) and exprloc attributes (typed operations, DW_OP_call2/call4/call_ref, GNU_parameter_ref, implicit_pointer, GNU_variable_value, nested in DW_OP_entry_value), attributes both filter_attributes drop (DW_AT_sibling, *_base, dwo_*) carrying references, DW_AT_GNU_locviews; strict and tolerant conversion; expected = emitted DIEs with parents and every converted attribute (name, body, referenced source DIEs) from Model/FilterAttrs.v; exhaustive: out-of-bounds unit-relative operand landing exactly on each DIE / the root of the next unit, on the unit end, end-1, header-1, through every form and operation x nesting x required subsets; a dropped attribute of every dropped name pointing at an otherwise unreachable DIE"
    (fun ~seed ~n emit ->
      (* exhaustive 1: unit 0 = {a}; unit 1 = {b; c}.  a carries one malformed unit-relative operand *)
      List.iter (fun (ver, fmt, asz) ->
        let carriers =
          List.map (fun form -> (fun t -> { name = 0x49; k = URef (form, t) })) [ 0x11; 0x12; 0x13; 0x14; 0x15 ]
          @ List.concat_map (fun opi -> List.map (fun nest ->
              (fun t -> { name = 0x02; k = Expr [ { opi; nest; otg = t } ] })) [ 0; 1 ]) [ 0; 1; 2; 3; 4; 5; 6; 10 ] in
        List.iter (fun mk ->
          List.iter (fun t ->
            List.iter (fun (tb, tc, d2) ->
              let f = [ [ ent 1 t_var ~attrs:[ mk t ] ]; [ ent 1 tb; ent d2 tc ] ] in
              List.iter (fun req -> emit_attrs emit 1 ver fmt asz f req) [ [ 0 ]; [ 0; 2 ]; [ 1 ]; [] ];
              emit_attrs emit 0 ver fmt asz f [ 0 ])
              [ (t_typedef, t_base, 1); (t_struct, t_member, 2) ])
            [ (5, 1); (5, 2); (9, 0); (6, 0); (7, 0); (8, 0); (3, 0); (2, 0); (1, 0) ]) carriers)
        [ (4, 4, 8); (5, 4, 8); (5, 8, 8) ];
      (* exhaustive 2: a required DIE with a DROPPED attribute (every dropped name, DW_AT_GNU_locviews) that
         references an otherwise unreachable DIE, next to a kept reference *)
      List.iter (fun nm ->
        List.iter (fun k ->
          let f = [ [ ent 1 t_base; ent 1 t_typedef; ent 1 t_var ~attrs:[ { name = nm; k }; { name = 0x49; k = URef (0x13, (0, 1)) } ] ] ] in
          List.iter (fun req -> emit_attrs emit 0 5 4 8 f req) [ [ 2 ]; [ 0; 2 ]; [] ])
          [ URef (0x13, (0, 0)); URef (0x11, (0, 0)); IRef (0, 0); Plain 7 ])
        (0x2137 :: 0x3c :: Array.to_list dropped_names);
      let r = mk_rng (seed * 7717 + 3) in
      let totals = [| 2; 3; 3; 4; 4; 5; 5; 6; 6; 7; 8; 9; 10; 12; 16 |] in
      let made = ref 0 in
      while !made < n do
        let (ver, fmt, asz) = pick r versions in
        let nunits = 1 + rand_int r 3 in
        let total = pick r totals in
        let sizes = split_sizes r total nunits in
        let malformed = rand_int r 3 = 0 in
        let f = gen_forest r ~fmt ~sizes ~oob:(if malformed then 250 else 0) ~maxattrs:4 in
        let mode = if malformed then 1 else rand_int r 2 in
        let cnt = count f in
        if cnt <= 6 then
          List.iter (fun req -> emit_attrs emit mode ver fmt asz f req; incr made) (subsets cnt)
        else
          for _ = 1 to 8 do emit_attrs emit mode ver fmt asz f (random_subset r cnt); incr made done
      done);
  register "c1901.split"
    ~doc:"split DWARF 5: a hand-built skeleton unit + a one-unit .dwo section (DW_UT_skeleton / DW_UT_split_compile, same dwo_id); FilterUnitSection::new_split, ConvertUnit::convert_split_with_filter, ConvertUnit::convert; expected = Model/FilterAttrs.convert_split_filtered (emitted DIEs and parents); harness oracles: attributes equal to ConvertUnit::convert_split (unfiltered), write succeeds, nothing dangles; exhaustive: every 3-entry shape x 3 tag triples x every required subset"
    (fun ~seed ~n emit ->
      let one ver fmt asz f req =
        if List.for_all (List.for_all (expr_fits fmt)) f then
          both emit (case_attrs "c1901.split" 0 ver fmt asz f req) (show_split ver fmt f req) in
      List.iter (fun shape ->
        List.iter (fun tags ->
          let u = List.map2 (fun d t -> ent d t) shape tags in
          List.iter (fun req -> one 5 4 8 [ u ] req; one 4 4 8 [ u ] req) (subsets 3))
          [ [ t_struct; t_member; t_var ]; [ t_ns; t_struct; t_var ]; [ t_subprogram; t_param; t_base ] ])
        [ [ 1; 1; 1 ]; [ 1; 2; 1 ]; [ 1; 2; 2 ]; [ 1; 2; 3 ]; [ 1; 1; 2 ] ];
      (* a .dwo section with two units: required sets over both units, a cross-unit DW_FORM_ref_addr *)
      List.iter (fun ver ->
        List.iter (fun xref ->
          let f = [ [ ent 1 t_struct; ent 2 t_member; ent 1 t_var ~attrs:(if xref then [ { name = 0x49; k = IRef (0, 3) } ] else []) ];
                    [ ent 1 t_base; ent 1 t_var ~attrs:[ { name = 0x49; k = URef (0x13, (0, 3)) } ] ] ] in
          List.iter (fun req -> one ver 4 8 f req) (subsets 5)) [ false; true ]) [ 5; 4 ];
      let r = mk_rng (seed * 4051 + 11) in
      let made = ref 0 in
      while !made < n do
        let (fmt, asz) = pick r [| (4, 8); (8, 8); (4, 4) |] in
        let ver = if rand_int r 3 = 0 then 4 else 5 in
        let nunits = (match rand_int r 4 with 0 -> 2 | 1 -> 3 | _ -> 1) in
        let total = 1 + rand_int r 12 in
        let f = gen_forest r ~fmt ~sizes:(split_sizes r total nunits) ~oob:0 ~maxattrs:3 in
        let cnt = count f in
        if cnt <= 5 then
          List.iter (fun req -> one ver fmt asz f req; incr made) (subsets cnt)
        else
          for _ = 1 to 6 do one ver fmt asz f (random_subset r cnt); incr made done
      done);
  register "c1901.bounds"
    ~doc:"UnitOffset::is_in_bounds, UnitOffset::to_unit_section_offset (unchecked usize +: panic in debug, wrap in release) and UnitSectionOffset::to_unit_offset of the public API on the units of a hand-built section against in_bounds / to_unit_section_offset / to_unit_offset of the model; exhaustive: every offset in [0, section length + 2] for both units of three layouts, and the values 2^64-1-d, 2^63+-d, 2^32+-d"
    (fun ~seed ~n emit ->
      let one ver fmt asz f sel (o : Z.t) (x : Z.t) =
        let aunits, l = to_model ver fmt (0, 0) f in
        let u = FilterAttrs.unit_of (List.nth aunits sel) in
        let case = Printf.sprintf "c1901.bounds %d %d %d %s %d %s %s" ver fmt asz (enc_forest f) sel (Z.to_string o) (Z.to_string x) in
        both emit case (fun dbg ->
          let ((b, s), t) = FilterAttrs.bounds_probe dbg u (n_of_z o) (n_of_z x) in
          match s with
          | Res.Ok v -> Printf.sprintf "ok %d %s %s" (if b then 1 else 0) (string_of_n v)
                          (match t with Some y -> string_of_n y | None -> "none")
          | _ -> "panic") in
      let f1 = [ [ ent 1 t_var; ent 1 t_struct; ent 2 t_member ]; [ ent 1 t_base ] ] in
      let f2 = [ []; [ ent 1 t_base ~attrs:[ { name = 0x0b; k = Plain 4 } ] ]; [] ] in
      let two64 = Z.shift_left Z.one 64 in
      List.iter (fun (ver, fmt, asz, f) ->
        let _, l = to_model ver fmt (0, 0) f in
        let nu = Array.length l.ulen in
        let total = l.uoff.(nu) in
        for sel = 0 to nu - 1 do
          for o = 0 to total + 2 do one ver fmt asz f sel (Z.of_int o) (Z.of_int o) done;
          List.iter (fun base ->
            for d = 0 to 40 do
              let a = Z.sub base (Z.of_int d) and b = Z.add base (Z.of_int d) in
              if Z.geq a Z.zero && Z.lt a two64 then one ver fmt asz f sel a a;
              if Z.lt b two64 then one ver fmt asz f sel b b
            done) [ Z.pred two64; Z.shift_left Z.one 63; Z.shift_left Z.one 32 ]
        done) [ (4, 4, 8, f1); (5, 8, 8, f1); (5, 4, 4, f2) ];
      let r = mk_rng (seed * 911 + 5) in
      for _ = 1 to n do
        let (ver, fmt, asz) = pick r versions in
        let nunits = 1 + rand_int r 3 in
        let f = gen_forest r ~fmt ~sizes:(split_sizes r (rand_int r 8) nunits) ~oob:0 ~maxattrs:2 in
        if List.for_all (List.for_all (expr_fits fmt)) f then begin
          let _, l = to_model ver fmt (0, 0) f in
          let total = l.uoff.(nunits) in
          let v () = match rand_int r 4 with
            | 0 -> Z.of_int (rand_int r (total + 4))
            | 1 -> let j = rand_int r nunits in Z.of_int (max 0 (l.uoff.(j) + l.hdr + l.ulen.(j) - 2 + rand_int r 5))
            | 2 -> let j = rand_int r nunits in Z.of_int (max 0 (l.hdr + l.ulen.(j) - 2 + rand_int r 5))
            | _ -> boundary_z64 r in
          one ver fmt asz f (rand_int r nunits) (v ()) (v ())
        end
      done)

let init () = ()
