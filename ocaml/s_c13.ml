(* s_c13.ml — streams for C13 (line-program writer). Model side: extracted LineWr. *)
open Conv
open Streams

(* ---------------------------------------------------------------- OCaml-side scripts *)
type sstr = int * int list                       (* kind (0 inline, 1 .debug_str, 2 .debug_line_str), bytes *)
type sinfo = { ts : Z.t; size : Z.t; md5 : int list; src : sstr option }
type row = { ao : Z.t; opi : Z.t; fileh : int option; line : Z.t; col : Z.t; disc : Z.t;
             stmt : bool; bb : bool; pe : bool; eb : bool; isa : Z.t }
type op =
  | AddDir of sstr
  | AddFile of sstr * int * sinfo option
  | Begin of (int * Z.t) option                  (* 1 = Constant, 2 = Symbol *)
  | SetAddr of int * Z.t
  | Row of row
  | End of Z.t * Z.t
  | Flags of bool * bool * bool * bool
type hdr = { be : bool; fmt64 : bool; ver : int; asz : int; mil : int; mops : int; dis : bool;
             lb : int; lr : int; uver : int; uasz : int;
             wd : sstr; sd : sstr option; sf : sstr; sfi : sinfo option }

let b2i b = if b then 1 else 0

(* Streams.both evaluates the model before the driver decides whether the case belongs to this shard, so
   every shard would evaluate every case. The driver counts emit calls (case i goes to shard i mod nshards);
   this wrapper keeps the same count and evaluates only the cases of this process's shard. *)
let shard_info = lazy (match Array.to_list Sys.argv with
  | _ :: "gen" :: _ :: _ :: _ :: a :: b :: _ -> (try (int_of_string a, int_of_string b) with _ -> (0, 1))
  | _ -> (0, 1))
let sharded (emit : emit) =
  let i = ref 0 in
  let (sh, nsh) = Lazy.force shard_info in
  fun (mk : unit -> string * (bool -> string)) ->
    ignore (sh, nsh); (if Streams.mine () then (let (case, f) = mk () in emit case (f true) (f false)) else emit "" "" "");
    incr i
let zs = Z.to_string

(* ---- serialisation to tokens *)
let tok_sstr (k, bs) = Printf.sprintf "%d %s" k (hex_of_ints bs)
let tok_osstr = function None -> "9 -" | Some s -> tok_sstr s
let tok_info = function
  | None -> "0 0 0 - 9 -"
  | Some i -> Printf.sprintf "1 %s %s %s %s" (zs i.ts) (zs i.size) (hex_of_ints i.md5) (tok_osstr i.src)
let tok_op = function
  | AddDir s -> "1 " ^ tok_sstr s
  | AddFile (s, d, i) -> Printf.sprintf "2 %s %d %s" (tok_sstr s) d (tok_info i)
  | Begin None -> "3 0 0"
  | Begin (Some (k, a)) -> Printf.sprintf "3 %d %s" k (zs a)
  | SetAddr (k, a) -> Printf.sprintf "4 %d %s" k (zs a)
  | Row r -> Printf.sprintf "5 %s %s %d %s %s %s %d %d %d %d %s" (zs r.ao) (zs r.opi)
               (match r.fileh with None -> 0 | Some h -> h + 1) (zs r.line) (zs r.col) (zs r.disc)
               (b2i r.stmt) (b2i r.bb) (b2i r.pe) (b2i r.eb) (zs r.isa)
  | End (off, opi) -> Printf.sprintf "6 %s %s" (zs off) (zs opi)
  | Flags (a, b, c, d) -> Printf.sprintf "7 %d %d %d %d" (b2i a) (b2i b) (b2i c) (b2i d)
let tok_hdr h =
  Printf.sprintf "%d %d %d %d %d %d %d %d %d %d %d %s %s %s %s" (b2i h.be) (b2i h.fmt64) h.ver h.asz h.mil h.mops
    (b2i h.dis) h.lb h.lr h.uver h.uasz (tok_sstr h.wd) (tok_osstr h.sd) (tok_sstr h.sf) (tok_info h.sfi)
let tok_script h ops =
  tok_hdr h ^ " " ^ string_of_int (List.length ops) ^ (String.concat "" (List.map (fun o -> " " ^ tok_op o) ops))

(* ---- conversion to the extracted Coq types *)
let c_sstr (k, bs) = (n_of_int k, bytes_of_ints bs)
let c_osstr = function None -> None | Some s -> Some (c_sstr s)
let c_info = function
  | None -> None
  | Some i -> Some { LineWr.si_timestamp = n_of_z i.ts; si_size = n_of_z i.size; si_md5 = bytes_of_ints i.md5;
                     si_source = c_osstr i.src }
let c_addr (k, a) = if k = 2 then LineWr.ASym (n_of_z a, cz_of_int 0) else LineWr.AConst (n_of_z a)
let c_op = function
  | AddDir s -> LineWr.OAddDir (c_sstr s)
  | AddFile (s, d, i) -> LineWr.OAddFile (c_sstr s, n_of_int d, c_info i)
  | Begin None -> LineWr.OBegin None
  | Begin (Some a) -> LineWr.OBegin (Some (c_addr a))
  | SetAddr (k, a) -> LineWr.OSetAddr (c_addr (k, a))
  | Row r -> LineWr.ORow { LineWr.rs_address_offset = n_of_z r.ao; rs_op_index = n_of_z r.opi;
                           rs_file = (match r.fileh with None -> None | Some h -> Some (n_of_int h));
                           rs_line = n_of_z r.line; rs_column = n_of_z r.col; rs_discriminator = n_of_z r.disc;
                           rs_is_statement = r.stmt; rs_basic_block = r.bb; rs_prologue_end = r.pe;
                           rs_epilogue_begin = r.eb; rs_isa = n_of_z r.isa }
  | End (off, opi) -> LineWr.OEnd (n_of_z off, n_of_z opi)
  | Flags (a, b, c, d) -> LineWr.OFlags (a, b, c, d)
let c_enc fmt64 ver asz = { LineWr.e_fmt64 = fmt64; e_version = n_of_int ver; e_addr_size = n_of_int asz }
let c_lenc h = { LineWr.le_min_len = n_of_int h.mil; le_max_ops = n_of_int h.mops; le_default_is_stmt = h.dis;
                 le_line_base = cz_of_int h.lb; le_line_range = n_of_int h.lr }

let eval_script dbg h ops =
  LineWr.run_script dbg h.be (c_enc h.fmt64 h.ver h.asz) (c_lenc h) (c_enc h.fmt64 h.uver h.uasz)
    (c_sstr h.wd) (c_osstr h.sd) (c_sstr h.sf) (c_info h.sfi) (List.map c_op ops)

let show_script r =
  show_res (fun ((dl, dls), ds) -> hex_of_bytes dl ^ " " ^ hex_of_bytes dls ^ " " ^ hex_of_bytes ds) r

(* instruction bytes only (grid streams): new, ops, then LineInstruction::write of every instruction *)
let eval_insns dbg h ops =
  let open Res in
  match LineWr.mk_lstr [] [] (c_sstr h.wd) with
  | Ok ((wd, ls), ss) ->
    (match LineWr.mk_lstr ls ss (c_sstr h.sf) with
     | Ok ((sf, ls), ss) ->
       (match LineWr.lp_new dbg (c_enc h.fmt64 h.ver h.asz) (c_lenc h) wd None sf None with
        | Ok p ->
          (match LineWr.run_ops dbg { LineWr.st_prog = p; st_ls = ls; st_ss = ss; st_dids = [n_of_int 0]; st_fids = [] }
                   (List.map c_op ops) with
           | Ok st -> LineWr.insns_write dbg h.be (c_enc h.fmt64 h.ver h.asz) st.LineWr.st_prog.LineWr.p_insns
           | Err e -> Err e | Panic -> Panic | OutOfFuel -> OutOfFuel)
        | Err e -> Err e | Panic -> Panic | OutOfFuel -> OutOfFuel)
     | Err e -> Err e | Panic -> Panic | OutOfFuel -> OutOfFuel)
  | Err e -> Err e | Panic -> Panic | OutOfFuel -> OutOfFuel

(* ---------------------------------------------------------------- grid *)
let plain_row ao opi line = { ao; opi; fileh = None; line; col = Z.zero; disc = Z.zero; stmt = true;
                              bb = false; pe = false; eb = false; isa = Z.zero }
let grid_hdr lb lr mil mops ver =
  { be = false; fmt64 = false; ver; asz = 8; mil; mops; dis = true; lb; lr; uver = ver; uasz = 8;
    wd = (0, [0x64]); sd = None; sf = (0, [0x66]); sfi = None }
(* the two-row program of one grid point; the harness builds exactly the same script *)
let grid_ops mil mops ladv oadv =
  let ao2 = Z.of_int ((oadv / mops) * mil) and opi2 = Z.of_int (oadv mod mops) in
  [ Begin (Some (1, Z.of_int 0x1000));
    Row (plain_row Z.zero Z.zero (Z.of_int 1000));
    Row (plain_row ao2 opi2 (Z.of_int (1000 + ladv)));
    End (Z.add ao2 (Z.of_int mil), opi2) ]

let pick_tuple r ~lr_lo ~lr_hi =
  let lr = match rand_int r 6 with
    | 0 -> lr_lo | 1 -> lr_hi
    | 2 -> let c = [| 2; 10; 12; 14; 100; 127; 128; 200; 243; 244; 250 |] in
      let x = pick r c in if x >= lr_lo && x <= lr_hi then x else lr_lo + rand_int r (lr_hi - lr_lo + 1)
    | _ -> lr_lo + rand_int r (lr_hi - lr_lo + 1) in
  (* line_base in -128..0 with line_base + line_range > 0 *)
  let lo = max (-128) (1 - lr) in
  let lb = match rand_int r 5 with
    | 0 -> 0 | 1 -> lo | 2 -> max lo (-5) | _ -> lo + rand_int r (0 - lo + 1) in
  let mil = pick r [| 1; 2; 4 |] and mops = pick r [| 1; 2; 4 |] in
  let ver = if mops > 1 then 4 + rand_int r 2 else 2 + rand_int r 4 in
  (lb, lr, mil, mops, ver)

(* line advance -300..300 x operation advance 0..600; step > 1 sub-samples (offset by the tuple index) *)
let grid_points step k f =
  let i = ref 0 in
  for ladv = -300 to 300 do
    for oadv = 0 to 600 do
      if (!i + k) mod step = 0 then f ladv oadv;
      incr i
    done
  done

let () =
  register "c13.grid" ~doc:"two-row programs: line advance -300..300 x operation advance 0..600 (every point when n > 8, every third point otherwise), n LineEncoding tuples over line_base -128..0, line_range 1..255, min_inst_len and max_ops in {1,2,4} (tuple 0 of odd seeds: -5/14/1/1, tuple 3: -128/250/1/1; odd tuples have line_range >= 128); instruction bytes + read-back oracle"
    (fun ~seed ~n emit ->
      let lazy_emit = sharded emit in
      let r = mk_rng seed in
      for t = 0 to n - 1 do
        let (lb, lr, mil, mops, ver) = if t = 0 && seed land 1 = 1 then (-5, 14, 1, 1, 4)
          else if t = 3 then (-128, 250, 1, 1, 4)
          else if t land 1 = 1 then pick_tuple r ~lr_lo:128 ~lr_hi:255 else pick_tuple r ~lr_lo:1 ~lr_hi:127 in
        let h = grid_hdr lb lr mil mops ver in
        grid_points (if n <= 8 then 3 else 1) t (fun ladv oadv ->
          lazy_emit (fun () ->
            let ops = grid_ops mil mops ladv oadv in
            (Printf.sprintf "c13.grid %d %d %d %d %d %d %d" lb lr mil mops ver ladv oadv,
             fun dbg -> show_res hex_of_bytes (eval_insns dbg h ops))))
      done);
  register "c13.newpre" ~doc:"LineProgram::new for every (line_base, line_range) in -128..127 x 0..255: expected = the documented precondition line_base <= 0 < line_base + line_range"
    (fun ~seed:_ ~n:_ emit ->
      for lb = -128 to 127 do
        for lr = 0 to 255 do
          let e = if lb <= 0 && lb + lr > 0 then "ok" else "new-panic" in
          emit (Printf.sprintf "c13.newpre %d %d" lb lr) e e
        done
      done);
  register "c13.new" ~doc:"LineProgram::new for every (line_base, line_range): model outcome (debug: overflow-checked i8 add; release: wrapping)"
    (fun ~seed:_ ~n:_ emit ->
      for lb = -128 to 127 do
        for lr = 0 to 255 do
          let h = grid_hdr lb lr 1 1 4 in
          both emit (Printf.sprintf "c13.new %d %d" lb lr) (fun dbg ->
            match LineWr.lp_new dbg (c_enc false 4 8) (c_lenc h) (LineWr.LStr (bytes_of_ints [0x64])) None
                    (LineWr.LStr (bytes_of_ints [0x66])) None with
            | Res.Ok _ -> "ok" | Res.Panic -> "new-panic" | _ -> "other")
        done
      done)

(* ---------------------------------------------------------------- random programs *)
let p2 k = Z.shift_left Z.one k
let names = [| [0x61]; [0x62]; [0x64; 0x69; 0x72]; [0x66; 0x2e; 0x63]; [0x78; 0x2f; 0x79]; [0x61]; [0x2f; 0x75; 0x73; 0x72];
               [0x6d; 0x61; 0x69; 0x6e; 0x2e; 0x72; 0x73]; [0xff; 0x80]; [0x7a] |]
let rand_name r =
  match rand_int r 40 with
  | 0 -> []                                        (* empty: panics for v <= 4 *)
  | 1 -> [0x61; 0x00; 0x62]                         (* NUL: panics *)
  | 2 -> List.init (1 + rand_int r 40) (fun _ -> 1 + rand_int r 255)
  | _ -> pick r names

let small_u64 r =
  match rand_int r 10 with
  | 0 -> Z.zero | 1 -> Z.one | 2 -> Z.of_int 127 | 3 -> Z.of_int 128 | 4 -> Z.of_int (rand_int r 70000)
  | 5 -> boundary_z64 r
  | _ -> Z.of_int (rand_int r 300)

let rand_md5 r = List.init 16 (fun _ -> rand_int r 256)

(* one random script; [clean] = stay inside the documented preconditions and away from the known findings *)
let gen_script r ~clean =
  let rare k = (not clean) && rand_int r k = 0 in
  let ver = if rare 30 then pick r [| 1; 6; 0; 7 |] else 2 + rand_int r 4 in
  let asz = if rare 25 then pick r [| 1; 2; 3; 0; 16 |] else pick r [| 4; 8; 8 |] in
  let mil = if rare 40 then pick r [| 0; 3; 255 |] else pick r [| 1; 1; 2; 4 |] in
  let mops = if ver >= 4 then (if rare 40 then pick r [| 0; 3; 255 |] else pick r [| 1; 1; 2; 4 |])
    else (if rare 15 then 2 else 1) in
  let lr = if rare 40 then 0 else pick r [| 1; 2; 10; 14; 14; 50; 127; 128; 243; 244; 255; 1 + rand_int r 255 |] in
  let lb = if rare 30 then pick r [| 1; 5; -128; 127 |] else
      let lo = max (-128) (1 - lr) in pick r [| 0; lo; max lo (-5); lo + rand_int r (0 - lo + 1) |] in
  let uver = if rare 20 then 2 + rand_int r 4 else (if ver >= 2 && ver <= 5 then max ver (2 + rand_int r 4) else ver) in
  let uasz = if rare 30 then pick r [| 4; 8 |] else asz in
  (* string forms *)
  let form_dir = if ver >= 5 then pick r [| 0; 1; 2; 2 |] else 0 in
  let form_file = if ver >= 5 then pick r [| 0; 1; 2; 2 |] else 0 in
  let form_src = pick r [| 0; 1; 2 |] in
  let str form = ((if rare 25 then rand_int r 3 else form), rand_name r) in
  let str_ne form = let (k, s) = str form in (k, if clean && (s = [] || List.mem 0 s) then [0x71] else s) in
  let mk_str form = if clean then str_ne form else str form in
  let info () = if rand_int r 3 = 0 then None else
      Some { ts = small_u64 r; size = small_u64 r; md5 = rand_md5 r;
             src = (if rand_int r 2 = 0 then None else
                      Some ((if rare 25 then rand_int r 3 else form_src),
                            (if rand_int r 3 = 0 then [] else [0x69; 0x6e; 0x74; 0x20; 0x78; 0x3b; 0x0a]))) } in
  let wd = mk_str form_dir in
  let sd = if rand_int r 2 = 0 then None else Some (mk_str form_dir) in
  let sf = mk_str form_file in
  let sfi = info () in
  let h = { be = rand_bool r; fmt64 = rand_bool r; ver; asz; mil; mops; dis = rand_bool r; lb; lr; uver; uasz;
            wd; sd; sf; sfi } in
  let ops = ref [] in
  let push o = ops := o :: !ops in
  let ndirs = ref 1 and nfiles = ref 0 in
  let add_tables k =
    for _ = 1 to k do
      if rand_int r 3 = 0 then (push (AddDir (mk_str form_dir)); incr ndirs)
      else begin
        let d = if rare 50 then !ndirs + 3 else rand_int r !ndirs in
        push (AddFile (mk_str form_file, d, info ())); incr nfiles
      end
    done in
  if rand_int r 3 > 0 then push (Flags (rand_bool r, rand_bool r, rand_bool r, rand_bool r));
  add_tables (rand_int r 5);
  let mask = if asz >= 8 || asz < 1 then Z.pred (p2 64) else Z.pred (p2 (8 * asz)) in
  let amax = Z.sub mask (Z.of_int 1_000_000) in      (* stay below the tombstone region and overflow *)
  let nseq = 1 + rand_int r 3 in
  let mil' = max mil 1 and mops' = max mops 1 in
  for s = 1 to nseq do
    (* sequence start *)
    let base = if asz = 1 then Z.of_int (rand_int r 20) else if asz = 2 then Z.of_int (rand_int r 30000)
      else (match rand_int r 4 with 0 -> Z.zero | 1 -> Z.of_int 0x1000 | 2 -> Z.rem (rand_z64 r) (Z.max Z.one amax)
                                  | _ -> Z.of_int (rand_int r 100000)) in
    let base = if (not clean) && rand_int r 60 = 0 then mask else base in
    let base = if (not clean) && rand_int r 60 = 0 && asz >= 1 && asz < 8 then Z.succ mask else base in
    let cur_base = ref base in
    (match rand_int r 6 with
     | 0 -> push (Begin None); cur_base := Z.zero
     | 1 -> cur_base := Z.zero                      (* implicit start at address 0 *)
     | 2 -> push (SetAddr ((if rare 40 then 2 else 1), base))
     | _ -> push (Begin (Some ((if rare 40 then 2 else 1), base))));
    if rare 40 then push (Begin None);              (* second begin: panics *)
    let ao = ref Z.zero and opi = ref 0 and line = ref Z.one and col = ref Z.zero and isa = ref Z.zero in
    let stmt = ref h.dis and fileh = ref None in
    let room = ref (Z.sub amax !cur_base) in
    let budget = if asz = 1 then 100 else if asz = 2 then 20000 else 1_000_000 in
    let room_i = ref (if Z.gt !room (Z.of_int budget) then budget else max 0 (Z.to_int !room)) in
    let nrows = rand_int r 9 in
    for _ = 1 to nrows do
      (* advance the operation pointer *)
      let total = Z.to_int (Z.div !ao (Z.of_int mil')) * mops' + !opi in
      let adv = match rand_int r 8 with
        | 0 | 1 -> 0 | 2 -> 1 | 3 -> rand_int r 20 | 4 -> rand_int r 300 | 5 -> rand_int r 5000
        | 6 -> pick r [| 17; 18; 16; 255; 242; 243; 241 |] | _ -> rand_int r 40 in
      let adv = if (adv / mops' + 1) * mil' > !room_i / 2 then 0 else adv in
      let total' = total + adv in
      let nao = Z.of_int ((total' / mops') * mil') and nopi = total' mod mops' in
      room_i := !room_i - Z.to_int (Z.sub nao !ao);
      ao := nao; opi := nopi;
      if rare 60 then ao := Z.add !ao Z.one;                          (* not a multiple of min_inst_len *)
      if rare 80 && Z.gt !ao Z.zero then ao := Z.pred !ao;             (* decreasing offset *)
      if rare 80 then opi := mops' + rand_int r 3;                     (* op_index out of range *)
      (* line *)
      (match rand_int r 8 with
       | 0 -> () | 1 -> line := Z.succ !line
       | 2 -> line := Z.max Z.zero (Z.add !line (Z.of_int (rand_int r 601 - 300)))
       | 3 -> line := Z.of_int (rand_int r 100000)
       | 4 -> line := Z.max Z.zero (Z.add !line (Z.of_int (h.lb + rand_int r (h.lr + 2) - 1)))
       | 5 -> line := Z.of_int (rand_int r 3)
       | 6 -> line := if rand_int r 3 = 0 then Z.of_int (rand_int r 0x7fffffff) else if rand_bool r then rand_z64 r else boundary_z64 r
       | _ -> line := Z.add !line (Z.of_int (rand_int r 20)));
      line := Z.min !line (Z.pred (p2 64));
      if rand_int r 4 = 0 then col := small_u64 r;
      if rand_int r 8 = 0 then isa := small_u64 r;
      if rand_int r 5 = 0 then stmt := not !stmt;
      if !nfiles > 0 && rand_int r 3 = 0 then fileh := Some (rand_int r !nfiles);
      if rare 100 then fileh := Some (!nfiles + 2);
      let disc = if rand_int r 4 = 0 then small_u64 r else Z.zero in
      push (Row { ao = !ao; opi = Z.of_int !opi; fileh = !fileh; line = !line; col = !col; disc; stmt = !stmt;
                  bb = rand_int r 5 = 0; pe = rand_int r 6 = 0; eb = rand_int r 7 = 0; isa = !isa });
      (* mid-sequence set_address, at any op_index (resets op_index) *)
      if rand_int r 7 = 0 && !room_i > 1000 then begin
        let cur = Z.add !cur_base !ao in
        let bump = rand_int r (min 500 (!room_i / 4)) in
        let na = Z.add cur (Z.of_int bump) in
        (* new base such that base' + (ao - ao_at_set) continues from `na` *)
        cur_base := Z.sub na !ao;
        room_i := !room_i - bump;
        push (SetAddr (1, na));
        opi := 0   (* DW_LNE_set_address resets op_index: the next row may use any op_index *)
      end;
      if rare 50 then add_tables 1
    done;
    (* end of sequence (the last one may be left open) *)
    if s < nseq || rand_int r 5 > 0 then begin
      let extra = (rand_int r 4) * mil' in
      let extra = if extra > !room_i / 2 then 0 else extra in
      let eopi = if mops' > 1 && rand_int r 3 = 0 then rand_int r mops' else !opi in
      let eopi = if extra = 0 && eopi < !opi then !opi else eopi in
      push (End (Z.add !ao (Z.of_int extra), Z.of_int eopi))
    end;
    if rand_int r 3 = 0 then add_tables 1
  done;
  (h, List.rev !ops)

let () =
  register "c13.prog" ~doc:"random multi-sequence programs: every row field, mid-sequence set_address, duplicate file/directory names, optional file fields, v2-5, both formats, string forms; 1/4 of the cases leave the documented preconditions (errors, panics)"
    (fun ~seed ~n emit ->
      let lazy_emit = sharded emit in
      for i = 1 to n do
        lazy_emit (fun () ->
          let r = mk_rng (seed * 1000003 + i) in       (* one generator per case: a shard builds only its own cases *)
          let (h, ops) = gen_script r ~clean:(i mod 4 <> 0) in
          ("c13.prog " ^ tok_script h ops, fun dbg -> show_script (eval_script dbg h ops)))
      done)

(* ---------------------------------------------------------------- former witness families, now ordinary cases *)
let () =
  register "c13.edge" ~doc:"inputs on which the writer used to fail before fixes 4a025e8 / c8c5891 / 64c2c71: line numbers >= 2^63 (deltas beyond i64), operation advance x line_range overflowing u64, set_address in the middle of a VLIW instruction; model bytes + read-back oracle"
    (fun ~seed ~n emit ->
      let r = mk_rng seed in
      let h0 = grid_hdr (-5) 14 1 1 4 in
      let out h ops = both emit ("c13.edge " ^ tok_script h ops) (fun dbg -> show_script (eval_script dbg h ops)) in
      for _ = 1 to n do
        (* line numbers >= 2^63, up and down *)
        let big = Z.add (p2 63) (Z.of_int (rand_int r 1000)) in
        let l0 = Z.of_int (1 + rand_int r 100) in
        let top = if rand_bool r then big else Z.pred (p2 64) in
        out h0 [ Begin (Some (1, Z.of_int 0x1000)); Row (plain_row Z.zero Z.zero l0);
                 Row (plain_row (Z.of_int 4) Z.zero top);
                 Row (plain_row (Z.of_int 5) Z.zero (Z.of_int (rand_int r 3)));
                 Row (plain_row (Z.of_int 6) Z.zero (Z.sub top (Z.of_int (rand_int r 20))));
                 End (Z.of_int 8, Z.zero) ];
        (* operation advance x line_range overflows u64 *)
        let lr = pick r [| 14; 2; 10; 100; 255 |] in
        let h = grid_hdr (-1) lr 1 1 4 in
        let oadv = Z.add (Z.div (p2 64) (Z.of_int lr)) (Z.of_int (1 + rand_int r 3)) in
        out h [ Begin (Some (1, Z.of_int 0x10)); Row (plain_row Z.zero Z.zero (Z.of_int 7));
                Row (plain_row oadv Z.zero (Z.of_int (7 + rand_int r 3))); End (Z.succ oadv, Z.zero) ];
        (* set_address in the middle of a VLIW instruction (op_index <> 0) *)
        let mops = pick r [| 2; 4 |] in
        let h = grid_hdr (-5) 14 1 mops 4 in
        let k = 1 + rand_int r (mops - 1) in
        out h [ Begin (Some (1, Z.of_int 0x1000)); Row (plain_row Z.zero (Z.of_int k) (Z.of_int 7));
                SetAddr (1, Z.of_int 0x2000); Row (plain_row (Z.of_int 1) Z.zero (Z.of_int 8));
                Row (plain_row (Z.of_int 1) (Z.of_int k) (Z.of_int 8));
                End (Z.of_int 2, Z.zero) ]
      done);
  register "c13.known" ~doc:"family of inputs inside the documented preconditions on which the writer is known to fail (known_findings.txt): address advance x maximum_operations_per_instruction overflows u64 in op_advance; expected = a program that reads back"
    (fun ~seed ~n emit ->
      let r = mk_rng seed in
      for _ = 1 to n do
        let mops = pick r [| 2; 4 |] in
        let h = grid_hdr (-5) 14 1 mops 4 in
        let ao = Z.add (Z.div (p2 64) (Z.of_int mops)) (Z.of_int (rand_int r 3)) in
        emit (Printf.sprintf "c13.known 4 %s" (tok_script h
                [ Begin (Some (1, Z.of_int 0x10)); Row (plain_row Z.zero Z.zero (Z.of_int 7));
                  Row (plain_row ao Z.zero (Z.of_int 7)); End (Z.succ ao, Z.zero) ])) "ok" "ok"
      done)

let init () = ()
