(* s_c20e.ml — C20, model-kind streams for the stateful side of src/read/unit.rs (Model/EntryBuf.v):
     c20.bufm   one EntriesRaw reader + ONE reused DebuggingInformationEntry buffer: histories of
                read_entry / read_abbreviation+skip_attributes / re-open at an offset (also after errors);
                the result line shows, per step, the result, THE BUFFER AS IT IS LEFT (after errors too)
                and next_offset/next_depth/is_empty
     c20.curm   several EntriesCursor side by side: next_entry / next_dfs / next_sibling on cursor i,
                clone cursor i; per step the result and current()/offset()/depth()/next_offset()/next_depth()
     c20.treem  ONE EntriesTree: a history of (budget, k) partial walks, each starting with root();
                a walk emits at most `budget` entries and descends only below entries whose offset is
                not a multiple of k (k = 0: always)
   case:  <stream> <be> <types> <info hex> <abbrev hex> <op tokens ...>
     bufm ops : 1 = read, 2 = skip, 3 <off> = reopen          (the initial reader is entries_raw(None))
     curm ops : 1 <i> / 2 <i> / 3 <i> = next_entry / next_dfs / next_sibling on cursor i, 4 <i> = clone i
     treem ops: <budget> <k> pairs
   Units come from the C02 generator (spec encoder, every version/format/address size/byte order), 40 %
   of them with damaged bytes so that reads fail part-way through an entry. *)
open Conv
open Streams
open FormSpec
open Forest
open EntryBuf

let spf = Printf.sprintf
let sn = string_of_n
let sz = string_of_cz
let b01 b = if b then 1 else 0

(* the buffer in full, null or not (after an error it may hold a stale tag with new offset/depth) *)
let show_buf (d : die) =
  spf "%s:%s:%s:%d:%s" (sn d.d_offset) (sz d.d_depth) (sn d.d_tag) (b01 d.d_children)
    (S_c02.show_specs_vals d.d_attrs)

let show_resn (r : BinNums.coq_N Res.res) = match r with
  | Res.Ok n -> sn n | Res.Err e -> "!" ^ Errnames.name e | Res.Panic -> "panic" | Res.OutOfFuel -> "outoffuel"
let show_obs = function
  | None -> "-"
  | Some ((noff, nd), emp) -> spf "%s,%s,%d" (show_resn noff) (sz nd) (b01 emp)
let show_resb (r : bool Res.res) = match r with
  | Res.Ok b -> string_of_int (b01 b) | Res.Err e -> "!" ^ Errnames.name e
  | Res.Panic -> "panic" | Res.OutOfFuel -> "outoffuel"

let show_rout = function
  | OutRead (r, b, obs) -> spf "R:%s:%s:%s" (show_resb r) (show_buf b) (show_obs obs)
  | OutSkip (r, obs) ->
      spf "S:%s:%s" (match r with
        | Res.Ok None -> "null" | Res.Ok (Some t) -> sn t | Res.Err e -> "!" ^ Errnames.name e
        | Res.Panic -> "panic" | Res.OutOfFuel -> "outoffuel") (show_obs obs)
  | OutReopen (r, obs) ->
      spf "O:%s:%s" (match r with
        | Res.Ok _ -> "ok" | Res.Err e -> "!" ^ Errnames.name e
        | Res.Panic -> "panic" | Res.OutOfFuel -> "outoffuel") (show_obs obs)
  | OutUndefined -> "undef"

let show_cout (o : cout) =
  spf "%s:%s:%s:%s:%s:%s" (show_resb o.co_res)
    (match o.co_cur with Some d -> show_buf d | None -> "none")
    (sn o.co_off) (sz o.co_depth) (show_resn o.co_noff) (sz o.co_ndepth)

let show_wev = function
  | WEntry d -> show_buf d | WErr x -> "!" ^ Errnames.name x | WCrash -> "panic" | WFuel -> "outoffuel"

(* a line that contains `panic` / `outoffuel` anywhere is the whole-case panic of the harness *)
let finish (toks : string list) : string =
  let has sub s =
    let n = String.length sub and m = String.length s in
    let rec go i = i + n <= m && (String.sub s i n = sub || go (i + 1)) in go 0 in
  if List.exists (has "outoffuel") toks then "outoffuel"
  else if List.exists (has "panic") toks then "panic"
  else "ok " ^ (if toks = [] then "-" else String.concat " ; " toks)

exception Early of string
(* header and abbreviations exactly as harness/src/c20.rs obtains them *)
let setup dbg bigend types (info : Byte0.byte list) (abbrev : Byte0.byte list) =
  if info = [] then raise (Early "nounit");
  let h = match DieRd.parse_unit_header bigend types BinNums.N0 info with
    | Res.Ok (h, _) -> h
    | Res.Err e -> raise (Early ("err " ^ Errnames.name e))
    | Res.Panic -> raise (Early "panic") | Res.OutOfFuel -> raise (Early "outoffuel") in
  let tbl = match AbbrevRd.abbreviations_at dbg abbrev h.DieRd.u_abbrev with
    | Res.Ok t -> t
    | Res.Err e -> raise (Early ("abbrev!" ^ Errnames.name e))
    | Res.Panic -> raise (Early "panic") | Res.OutOfFuel -> raise (Early "outoffuel") in
  (h, tbl)

let must_early = function
  | Res.Ok a -> a
  | Res.Err e -> raise (Early ("start!" ^ Errnames.name e))
  | Res.Panic -> raise (Early "panic") | Res.OutOfFuel -> raise (Early "outoffuel")

(* ---- models of the three streams ---- *)
let model_bufm dbg bigend types info abbrev (ops : rop list) : string =
  try
    let (h, tbl) = setup dbg bigend types info abbrev in
    let r0 = must_early (DieRd.entries_raw dbg h None) in
    finish (List.map show_rout (rrun dbg h tbl ops { rs_rd = Live r0; rs_buf = DieRd.null_die }))
  with Early s -> s

let model_curm dbg bigend types info abbrev (ops : mop list) : string =
  try
    let (h, tbl) = setup dbg bigend types info abbrev in
    let c0 = must_early (DieRd.entries dbg h) in
    finish (List.map (function MNone -> "D" | MOut o -> show_cout o) (mrun dbg h.DieRd.u_enc tbl ops [c0]))
  with Early s -> s

let model_treem dbg bigend types info abbrev (hist : (int * int) list) : string =
  try
    let (h, tbl) = setup dbg bigend types info abbrev in
    let t0 = must_early (entries_tree_buf dbg h None) in
    let ws = walks dbg h.DieRd.u_enc tbl (List.map (fun (b, k) -> (nat_of_int b, n_of_int k)) hist) t0 in
    finish (List.map (fun evs -> String.concat "," (List.map show_wev evs)) ws)
  with Early s -> s

(* ---- generators ---- *)
let damage r (l : Byte0.byte list) (n : int) : Byte0.byte list =
  let a = Array.of_list (List.map int_of_byte l) in
  let len = Array.length a in
  if len > 0 then
    for _ = 1 to n do
      let i = rand_int r len in
      match rand_int r 4 with
      | 0 -> a.(i) <- a.(i) lxor (1 lsl rand_int r 8)
      | 1 -> a.(i) <- 0xff
      | 2 -> a.(i) <- 0
      | _ -> a.(i) <- rand_int r 256
    done;
  bytes_of_ints (Array.to_list a)

(* a unit: well-formed, or with a damaged body / abbreviation table / a truncated body *)
let gen_unit r : bool * bool * Byte0.byte list * Byte0.byte list * int * int =
  let u = S_c02.gen_wellformed r ~size:(if rand_int r 4 = 0 then 1 else 0) in
  let hl = Z.to_int (z_of_n (header_len u.S_c02.hdr)) in
  let nb = List.length u.S_c02.body in
  let info, abbrev =
    match rand_int r 10 with
    | 0 | 1 ->
        (* damage inside the entries only (the header stays parseable) *)
        let pre = List.filteri (fun i _ -> i < hl) u.S_c02.info
        and body = List.filteri (fun i _ -> i >= hl) u.S_c02.info in
        (pre @ damage r body (1 + rand_int r 3), u.S_c02.abbrev)
    | 2 -> (u.S_c02.info, damage r u.S_c02.abbrev (1 + rand_int r 2))
    | 3 ->
        (* cut the unit short: rebuild the length field by re-encoding a shorter body *)
        let keep = rand_int r (nb + 1) in
        let body = List.filteri (fun i _ -> i < keep) u.S_c02.body in
        (enc_unit u.S_c02.bigend u.S_c02.hdr body, u.S_c02.abbrev)
    | _ -> (u.S_c02.info, u.S_c02.abbrev) in
  (u.S_c02.bigend, u.S_c02.types, info, abbrev, hl, nb)

let case_head stream bigend types info abbrev =
  spf "%s %d %d %s %s" stream (b01 bigend) (b01 types) (hex_of_bytes info) (hex_of_bytes abbrev)

let () =
  register "c20.bufm"
    ~doc:"ONE DebuggingInformationEntry buffer reused over a history of EntriesRaw operations (read_entry, read_abbreviation+skip_attributes, re-open at the root / at an entry seen before / at a random offset) on generated units, 40% damaged so that reads fail inside an entry; after every failure the history re-opens a reader and keeps using the dirty buffer. The line shows the buffer after every read, failed ones included"
    (fun ~seed ~n emit ->
      S_c02.sharded ~seed ~n emit (fun _ r ->
        let (bigend, types, info, abbrev, hl, nb) = gen_unit r in
        (* choose the history by running the model (debug flavour) so that a broken reader is re-opened *)
        let ops =
          try
            let (h, tbl) = setup true bigend types info abbrev in
            let r0 = must_early (DieRd.entries_raw true h None) in
            let st = ref { rs_rd = Live r0; rs_buf = DieRd.null_die } in
            let seen = ref [hl] in
            let len = 4 + rand_int r 28 in
            let acc = ref [] in
            for _ = 1 to len do
              let reopen () =
                let off = match rand_int r 6 with
                  | 0 -> hl
                  | 1 -> hl + rand_int r (nb + 2)
                  | 2 -> rand_int r (hl + 1)
                  | _ -> List.nth !seen (rand_int r (List.length !seen)) in
                OReopen (n_of_int off) in
              let op =
                match !st.rs_rd with
                | Broken _ -> reopen ()
                | Live rd ->
                    if DieRd.raw_is_empty rd && rand_int r 3 > 0 then reopen ()
                    else match rand_int r 12 with
                      | 0 -> reopen ()
                      | 1 | 2 | 3 -> OSkip
                      | _ -> ORead in
              let (st', out) = rstep true h tbl !st op in
              (match out with
               | OutRead (Res.Ok _, b, _) -> seen := Z.to_int (z_of_n b.d_offset) :: !seen
               | _ -> ());
              st := st'; acc := op :: !acc
            done;
            List.rev !acc
          with Early _ -> [ORead; OSkip; ORead] in
        let toks = List.concat_map (function
          | ORead -> ["1"] | OSkip -> ["2"] | OReopen o -> ["3"; sn o]) ops in
        (String.concat " " (case_head "c20.bufm" bigend types info abbrev :: toks),
         fun dbg -> model_bufm dbg bigend types info abbrev ops)));

  register "c20.curm"
    ~doc:"several EntriesCursor side by side on generated (40% damaged) units: random histories of next_entry / next_dfs / next_sibling on cursor i and clone-of-cursor-i (up to 4 cursors), continued after errors and past the end; per step the result and every accessor (current, offset, depth, next_offset, next_depth)"
    (fun ~seed ~n emit ->
      S_c02.sharded ~seed ~n emit (fun _ r ->
        let (bigend, types, info, abbrev, _, _) = gen_unit r in
        let ncur = ref 1 in
        let len = 4 + rand_int r 30 in
        let ops = List.init len (fun _ ->
          let i = rand_int r !ncur in
          match rand_int r 12 with
          | 0 | 1 when !ncur < 4 -> incr ncur; MDup (nat_of_int i)
          | 2 | 3 | 4 -> MOn (nat_of_int i, CEntry)
          | 5 | 6 | 7 -> MOn (nat_of_int i, CSibling)
          | _ -> MOn (nat_of_int i, CDfs)) in
        let toks = List.concat_map (function
          | MOn (i, CEntry) -> ["1"; string_of_int (int_of_nat i)]
          | MOn (i, CDfs) -> ["2"; string_of_int (int_of_nat i)]
          | MOn (i, CSibling) -> ["3"; string_of_int (int_of_nat i)]
          | MDup i -> ["4"; string_of_int (int_of_nat i)]) ops in
        (String.concat " " (case_head "c20.curm" bigend types info abbrev :: toks),
         fun dbg -> model_curm dbg bigend types info abbrev ops)));

  register "c20.treem"
    ~doc:"ONE EntriesTree on generated (40% damaged) units: histories of 1..6 walks, each root() followed by a traversal that is abandoned after `budget` entries (1 .. size+2) and skips the subtrees of entries whose offset is a multiple of k (k in 0,2,3,5); complete, abandoned and failing walks in any order; the harness also compares every walk with a fresh tree"
    (fun ~seed ~n emit ->
      S_c02.sharded ~seed ~n emit (fun _ r ->
        let (bigend, types, info, abbrev, _, nb) = gen_unit r in
        let hist = List.init (1 + rand_int r 6) (fun _ ->
          let budget = match rand_int r 4 with
            | 0 -> 1000 | 1 -> 1 + rand_int r 3 | _ -> 1 + rand_int r (nb + 2) in
          (budget, pick r [| 0; 0; 2; 3; 5 |])) in
        let toks = List.concat_map (fun (b, k) -> [string_of_int b; string_of_int k]) hist in
        (String.concat " " (case_head "c20.treem" bigend types info abbrev :: toks),
         fun dbg -> model_treem dbg bigend types info abbrev hist)))

(* ---- LineRows clones (Model/LineClone.v on top of LineRd) ----
   case: c20.linem <be> <asz> <unit hex> <k>;  result: ok <head> | <clone tail> <status> | <original tail> <status> *)
let () =
  register "c20.linem"
    ~doc:"LineRows::clone after k calls of next_row (k = 0 .. beyond the end) on generated line programs (C04 generator: well-formed and wild programs, noise, v2-5): head, then the clone drained, then the original drained, errors recorded and iteration continued until Ok(None)"
    (fun ~seed ~n emit ->
      S_c02.sharded ~seed ~n emit (fun _ r ->
        (* address sizes 1..8 only: other sizes are a misuse of DebugLine::program by the caller (C04) *)
        let rec gen () = let c = S_c04.gen_raw r ~version:(S_c04.any_version r) ~wild:true in
          if c.S_c04.asz >= 1 && c.S_c04.asz <= 8 then c else gen () in
        let c = gen () in
        let bytes = S_c04.unit_of c (S_c04.gen_any_prog r c) in
        let k = match rand_int r 4 with 0 -> 0 | 1 -> 1 + rand_int r 3 | 2 -> 50 | _ -> rand_int r 12 in
        (spf "%s %d" (S_c04.case "c20.linem" c bytes) k,
         fun dbg -> S_c04.with_header dbg c.S_c04.be c.S_c04.asz bytes (fun h ->
           let (((es, early), (t1, s1)), (t2, s2)) = LineClone.line_clone dbg c.S_c04.be h (nat_of_int k) in
           let ev = function LineRd.EvRow r -> S_c04.pr_row r | LineRd.EvErr e -> "err:" ^ Errnames.name e in
           let bad = function LineRd.SPanic -> Some "panic" | LineRd.SFuel -> Some "outoffuel" | _ -> None in
           match (match early with Some s -> bad s | None -> None), bad s1, bad s2 with
           | Some x, _, _ | _, Some x, _ | _, _, Some x -> x
           | None, None, None ->
             String.concat " " (["ok"] @ List.map ev es @ ["|"] @ List.map ev t1 @ [S_c04.pr_status s1; "|"]
                                @ List.map ev t2 @ [S_c04.pr_status s2])))))

let init () = ()
