(* s_c17.ml — streams for C17 (accelerated lookups and section plumbing).
   Model side: extracted IndexRd / NamesRd / ArangesRd; inputs are built with the extracted spec encoders of
   LookupSpec (tables by insertion, bucket arrays, sets) plus a malformed share (field mutations, truncation). *)
open Conv
open Streams
module L = LookupSpec
module I = IndexRd
module Nm = NamesRd
module A = ArangesRd

exception MPanic
exception MFuel

let emit_fixed (emit : emit) case e = emit case e e

(* the random share of a stream: one case per iteration, each from its own generator state, so that the
   iterations of other shards can be skipped without building their inputs *)
let for_random ~seed ~n (f : rng -> unit) =
  for i = 1 to n do
    if Streams.mine () then begin
      let before = !Streams.idx in
      f (mk_rng (seed * 1000003 + i));
      if !Streams.idx = before then Streams.skip ()
      else if !Streams.idx > before + 1 then failwith "for_random: more than one case per iteration"
    end else Streams.skip ()
  done

let ename = Errnames.name
let sn = string_of_n
let ni = n_of_int
let nz = n_of_z
let guard f = try f () with MPanic -> "panic" | MFuel -> "outoffuel"
let stop_s = function
  | I.SDone -> "" | I.SErr e -> "!" ^ ename e | I.SPanic -> raise MPanic | I.SFuel -> raise MFuel
(* inline result: value or E:<err> *)
let rs pr = function
  | Res.Ok a -> pr a | Res.Err e -> "E:" ^ ename e | Res.Panic -> raise MPanic | Res.OutOfFuel -> raise MFuel
let cat sep l = String.concat sep l
let bflag b = if b then 1 else 0

let p2 k = Z.shift_left Z.one k
let u32max = Z.pred (p2 32)
let u64max = Z.pred (p2 64)

(* little helpers over int lists *)
let enc_le w (v : Z.t) = List.init w (fun i -> Z.to_int (Z.logand (Z.shift_right v (8 * i)) (Z.of_int 255)))
let enc be w v = let l = enc_le w v in if be then List.rev l else l
let ints_of_bytes (l : Byte0.byte list) = List.map int_of_byte l
let boundary_u32 r =
  match rand_int r 10 with
  | 0 -> Z.zero | 1 -> Z.one | 2 -> u32max | 3 -> p2 31 | 4 -> Z.pred (p2 31)
  | 5 -> Z.of_int (rand_int r 300) | 6 -> Z.sub u32max (Z.of_int (rand_int r 16))
  | _ -> Z.logand (rand_z64 r) u32max
let truncate_list l k = List.filteri (fun i _ -> i < k) l
let mutate r (l : int list) : int list =
  let a = Array.of_list l in
  let n = Array.length a in
  if n = 0 then [rand_int r 256] else begin
    match rand_int r 5 with
    | 0 -> truncate_list l (rand_int r n)
    | 1 -> let i = rand_int r n in a.(i) <- rand_int r 256; Array.to_list a
    | 2 -> let i = rand_int r n in a.(i) <- (match rand_int r 3 with 0 -> 0 | 1 -> 0xff | _ -> a.(i) lxor (1 lsl rand_int r 8)); Array.to_list a
    | 3 -> (* overwrite an aligned 32-bit field with a boundary value *)
        let i = 4 * rand_int r (max 1 (n / 4)) in
        let v = enc (rand_bool r) 4 (boundary_u32 r) in
        List.iteri (fun k b -> if i + k < n then a.(i + k) <- b) v; Array.to_list a
    | _ -> l @ rand_bytes r (1 + rand_int r 8)
  end

(* ================================================================== unit index *)

let kind_code (s : I.isect) = int_of_n (I.isect_code s)

let show_row (r : ((I.isect * BinNums.coq_N) * BinNums.coq_N) list Res.res) =
  rs (fun l -> if l = [] then "-" else
       cat "," (List.map (fun ((k, o), z) -> Printf.sprintf "%d.%s.%s" (kind_code k) (sn o) (sn z)) l)) r

let index_rows (uc : Z.t) = [Z.zero; Z.one; Z.of_int 2; uc; Z.min (Z.succ uc) u32max; u32max]

let show_index dbg be (bs : Byte0.byte list) (ids : Z.t list) =
  guard (fun () ->
    match I.index_parse dbg be bs with
    | Res.Err e -> "err " ^ ename e
    | Res.Panic -> "panic" | Res.OutOfFuel -> "outoffuel"
    | Res.Ok ix ->
        let finds = List.map (fun id ->
          rs (function None -> "-" | Some row -> sn row) (I.index_find dbg be ix (nz id))) ids in
        let uc = z_of_n ix.I.ix_unit_count in
        let rows = List.map (fun row ->
          Z.to_string row ^ "=" ^ show_row (I.index_sections dbg be ix (nz row))) (index_rows uc) in
        Printf.sprintf "ok %s %s %s %s | f:%s | r:%s" (sn ix.I.ix_version) (sn ix.I.ix_section_count)
          (sn ix.I.ix_unit_count) (sn ix.I.ix_slot_count) (cat "," finds) (cat ";" rows))

let index_case emit be wf (l : int list) (ids : Z.t list) =
  let bs = bytes_of_ints l in
  let case = Printf.sprintf "c17.index %d %d %s %d%s" (bflag be) (bflag wf) (hex_of_ints l) (List.length ids)
      (cat "" (List.map (fun z -> " " ^ Z.to_string z) ids)) in
  both emit case (fun dbg -> show_index dbg be bs ids)

let v2_codes = [1; 2; 3; 4; 5; 6; 7; 8]
let v5_codes = [1; 3; 4; 5; 6; 7; 8]

(* ids whose probe sequences collide: few distinct low parts, few distinct high parts *)
let colliding_id r slots =
  let lo = Z.of_int (rand_int r (max 1 (min slots 3))) in
  let lo = if rand_int r 4 = 0 then Z.add lo (Z.mul (Z.of_int slots) (Z.of_int (rand_int r 5))) else lo in
  let hi = match rand_int r 4 with
    | 0 -> Z.zero | 1 -> Z.of_int (rand_int r 4) | 2 -> Z.of_int (slots * rand_int r 3)
    | _ -> Z.logand (rand_z64 r) u32max in
  let mid = if rand_int r 3 = 0 then Z.shift_left (Z.of_int (rand_int r 1000)) 8 else Z.zero in
  Z.logand (Z.add (Z.add lo (Z.shift_left hi 32)) (Z.mul mid (Z.of_int slots))) u64max

let distinct_ids r slots count =
  let rec go acc k tries =
    if k = 0 || tries > 1000 then acc else
    let id = if rand_int r 5 = 0 then rand_z64 r else colliding_id r slots in
    if Z.sign id = 0 || List.exists (Z.equal id) acc then go acc k (tries + 1) else go (id :: acc) (k - 1) (tries + 1) in
  List.rev (go [] count 0)

(* table by insertion through the extracted spec *)
let build_table slots (entries : (Z.t * Z.t) list) : (BinNums.coq_N * BinNums.coq_N) list option =
  L.insert_all (ni slots) (L.empty_table (ni slots)) (List.map (fun (a, b) -> (nz a, nz b)) entries)

let mk_index be ~v2 ~pad ~cols ~unit_count ~slots ~offsets ~sizes : int list =
  ints_of_bytes (L.enc_index be { L.d_v2 = v2; d_pad = ni pad; d_cols = List.map ni cols;
                                  d_unit_count = nz unit_count; d_slots = slots;
                                  d_offsets = List.map nz offsets; d_sizes = List.map nz sizes })

let absent_probes r slots (present : Z.t list) =
  let cands = [Z.zero; Z.one; u64max; p2 32; p2 63]
              @ List.concat_map (fun id ->
                  [Z.logxor id (p2 32); Z.logxor id (p2 40); Z.logand (Z.add id (Z.of_int (max 1 slots))) u64max;
                   Z.logxor id (p2 63)]) present
              @ List.init 3 (fun _ -> colliding_id r (max 1 slots)) in
  List.filter (fun c -> not (List.exists (Z.equal c) present)) cands

let gen_index ~seed ~n emit =
  let r = mk_rng seed in
  (* 1. empty section, tiny sections *)
  List.iter (fun be ->
    index_case emit be false [] [Z.zero; Z.one];
    for len = 1 to 20 do index_case emit be false (List.init len (fun i -> if i = 0 then 2 else 0)) [Z.one] done) [false; true];
  (* 2. every column code 0..300 and extremes, both versions: the DW_SECT tables *)
  List.iter (fun be -> List.iter (fun v2 ->
    let codes = List.init 301 (fun i -> Z.of_int i) @ [u32max; p2 31; p2 16; Z.of_int 65537; Z.of_int 0x01000000] in
    List.iter (fun code ->
      let l = (if v2 then enc be 4 (Z.of_int 2) else enc be 2 (Z.of_int 5) @ [0; 0])
              @ enc be 4 Z.one @ enc be 4 Z.one @ enc be 4 (Z.of_int 2)
              @ enc be 8 (Z.of_int 7) @ enc be 8 Z.zero @ enc be 4 Z.one @ enc be 4 Z.zero
              @ enc be 4 code @ enc be 4 (Z.of_int 0x1234) @ enc be 4 (Z.of_int 0x56) in
      index_case emit be false l [Z.of_int 7]) codes) [true; false]) [false; true];
  (* 3. every subset of the column kinds, versions 2 and 5 *)
  List.iter (fun v2 ->
    let codes = if v2 then v2_codes else v5_codes in
    let k = List.length codes in
    for mask = 0 to (1 lsl k) - 1 do
      let cols = List.filteri (fun i _ -> mask land (1 lsl i) <> 0) codes in
      let nc = List.length cols in
      let be = mask land 1 = 1 in
      let units = 2 in
      let offsets = List.init (units * nc) (fun i -> Z.of_int (100 * (i + 1) + mask)) in
      let sizes = List.init (units * nc) (fun i -> Z.of_int (7 * (i + 1))) in
      let ids = [Z.of_int (1000 + mask); Z.add (p2 33) (Z.of_int 3)] in
      match build_table 4 (List.mapi (fun i id -> (id, Z.of_int (i + 1))) ids) with
      | Some slots ->
          let l = mk_index be ~v2 ~pad:0 ~cols ~unit_count:(Z.of_int units) ~slots ~offsets ~sizes in
          index_case emit be true l (ids @ [Z.of_int 5])
      | None -> ()
    done) [true; false];
  (* 4. every load factor for slot counts 1..32 (incl. completely full with a smaller unit_count), colliding ids *)
  List.iter (fun slots ->
    for count = 0 to slots do
      for rep = 0 to 2 do
        let be = (rep + count) land 1 = 1 in
        let ids = distinct_ids r slots count in
        let entries = List.mapi (fun i id -> (id, Z.of_int (if count = slots then 1 + i mod (max 1 (slots - 1)) else i + 1))) ids in
        match build_table slots entries with
        | Some tbl ->
            let units = if count = slots then max 0 (slots - 1) else count in
            let cols = [1; 3] in
            let offsets = List.init (units * 2) (fun i -> Z.of_int (i * 16)) in
            let sizes = List.init (units * 2) (fun i -> Z.of_int (i + 1)) in
            let l = mk_index be ~v2:(rep = 0) ~pad:0 ~cols ~unit_count:(Z.of_int units) ~slots:tbl ~offsets ~sizes in
            index_case emit be true l (ids @ absent_probes r slots ids)
        | None -> ()
      done
    done) [1; 2; 4; 8; 16; 32];
  (* 5. slot counts that parse must reject or that are degenerate: 0 with units, non powers of two, <= units *)
  List.iter (fun be ->
    List.iter (fun (slots, units) ->
      let tbl = List.init slots (fun i -> (ni (i + 1), ni 1)) in
      let l = mk_index be ~v2:true ~pad:0 ~cols:[1] ~unit_count:(Z.of_int units) ~slots:tbl
          ~offsets:(List.init units (fun i -> Z.of_int i)) ~sizes:(List.init units (fun i -> Z.of_int i)) in
      index_case emit be false l [Z.one; Z.of_int 2; Z.of_int 3; Z.zero])
      [(0, 0); (0, 3); (1, 0); (1, 1); (2, 1); (2, 2); (2, 3); (3, 1); (5, 2); (6, 2); (7, 3); (12, 4); (4, 3); (4, 4); (4, 5); (8, 7); (8, 8)];
    (* section counts around the maximum *)
    List.iter (fun nc ->
      let cols = List.init nc (fun i -> 1 + (i mod 8)) in
      let l = mk_index be ~v2:true ~pad:0 ~cols ~unit_count:Z.one ~slots:[(ni 9, ni 1); (ni 0, ni 0)]
          ~offsets:(List.init nc (fun i -> Z.of_int i)) ~sizes:(List.init nc (fun i -> Z.of_int (i * 3))) in
      index_case emit be false l [Z.of_int 9]) [0; 7; 8; 9; 10; 255];
    (* version field variants *)
    List.iter (fun hdr ->
      let l = hdr @ enc be 4 Z.one @ enc be 4 Z.one @ enc be 4 (Z.of_int 2)
              @ enc be 8 (Z.of_int 6) @ enc be 8 Z.zero @ enc be 4 Z.one @ enc be 4 Z.zero
              @ enc be 4 (Z.of_int 3) @ enc be 4 (Z.of_int 11) @ enc be 4 (Z.of_int 22) in
      index_case emit be false l [Z.of_int 6; Z.of_int 2])
      [[2; 0; 0; 0]; [0; 0; 0; 2]; [5; 0; 0; 0]; [0; 5; 0; 0]; [5; 0; 1; 2]; [0; 5; 0xff; 0xff]; [2; 0; 5; 0]; [0; 2; 0; 5];
       [4; 0; 0; 0]; [6; 0; 0; 0]; [0; 0; 0; 0]; [2; 0; 0; 1]; [5; 5; 5; 5]; [0; 0; 0; 5]; [3; 0; 0; 0]]) [false; true];
  (* 6. random structured + malformed *)
  for_random ~seed ~n (fun r ->
    let be = rand_bool r in
    let v2 = rand_bool r in
    let k = rand_int r 6 in
    let slots = 1 lsl k in
    let count = rand_int r (slots + 1) in
    let ids = distinct_ids r slots count in
    let units = if List.length ids >= slots then max 0 (slots - 1) else List.length ids in
    let entries = List.mapi (fun i id -> (id, if rand_int r 10 = 0 then boundary_u32 r else Z.of_int (if units = 0 then 0 else 1 + i mod units))) ids in
    match build_table slots entries with
    | None -> ()
    | Some tbl ->
        let codes = if v2 then v2_codes else v5_codes in
        let cols = List.filter (fun _ -> rand_int r 3 > 0) codes in
        let cols = if rand_int r 6 = 0 then List.rev cols else cols in
        let nc = List.length cols in
        let offsets = List.init (units * nc) (fun _ -> boundary_u32 r) in
        let sizes = List.init (units * nc) (fun _ -> boundary_u32 r) in
        let l = mk_index be ~v2 ~pad:(if rand_int r 4 = 0 then rand_int r 65536 else 0) ~cols
            ~unit_count:(Z.of_int units) ~slots:tbl ~offsets ~sizes in
        let probes = ids @ absent_probes r slots ids in
        if rand_int r 3 = 0 then begin
          let l' = mutate r l in
          let l' = if rand_bool r then mutate r l' else l' in
          index_case emit be false l' probes
        end else begin
          let l' = if rand_int r 5 = 0 then l @ rand_bytes r (rand_int r 6) else l in
          index_case emit be true l' probes
        end
  )

(* ---- id 0 marks an unused slot and is therefore never present (regression for gimli 8339644) ---- *)
let gen_findzero ~seed:_ ~n:_ emit =
  let case be l = emit_fixed emit (Printf.sprintf "c17.findzero %d %s" (bflag be) (hex_of_ints l)) "ok none" in
  List.iter (fun be ->
    case be [];
    List.iter (fun (slots, ids) ->
      match build_table slots (List.mapi (fun i id -> (Z.of_int id, Z.of_int (i + 1))) ids) with
      | None -> ()
      | Some tbl ->
          let units = min (List.length ids) (max 0 (slots - 1)) in
          List.iter (fun v2 ->
            case be (mk_index be ~v2 ~pad:0 ~cols:[1] ~unit_count:(Z.of_int units) ~slots:tbl
                       ~offsets:(List.init units (fun i -> Z.of_int i)) ~sizes:(List.init units (fun i -> Z.of_int i))))
            [true; false])
      [ (2, []); (2, [1]); (4, [1; 2; 3]); (4, [4]); (4, [4; 8]); (4, [4; 1; 2; 3]); (8, [9; 17; 3]); (8, [8; 1]);
        (16, [5]); (1, []); (1, [7]) ];
    (* no hash table at all *)
    case be (mk_index be ~v2:true ~pad:0 ~cols:[1] ~unit_count:Z.zero ~slots:[] ~offsets:[] ~sizes:[])) [false; true]

(* ---- DwarfPackage::cu_sections contribution arithmetic ---- *)
let pkg_case emit be (l : int list) (row : Z.t) (lens : int array) =
  let bs = bytes_of_ints l in
  let case = Printf.sprintf "c17.pkg %d %s %s %s" (bflag be) (hex_of_ints l) (Z.to_string row)
      (cat " " (Array.to_list (Array.map string_of_int lens))) in
  both emit case (fun dbg ->
    guard (fun () ->
      match I.index_parse dbg be bs with
      | Res.Err e -> "err " ^ ename e
      | Res.Panic -> "panic" | Res.OutOfFuel -> "outoffuel"
      | Res.Ok ix ->
          match I.pkg_sections dbg be ix (nz row) (fun k -> ni lens.(kind_code k)) with
          | Res.Ok l -> "ok " ^ cat " " (List.map (fun ((k, o), z) -> Printf.sprintf "%d.%s.%s" (kind_code k) (sn o) (sn z)) l)
          | Res.Err e -> "err " ^ ename e
          | Res.Panic -> "panic" | Res.OutOfFuel -> "outoffuel"))

let gen_pkg ~seed ~n emit =
  let r = mk_rng seed in
  let one be v2 cols units row lens offs szs =
    let ids = List.init units (fun i -> Z.of_int (i + 11)) in
    match build_table 8 (List.mapi (fun i id -> (id, Z.of_int (i + 1))) ids) with
    | None -> ()
    | Some tbl ->
        let l = mk_index be ~v2 ~pad:0 ~cols ~unit_count:(Z.of_int units) ~slots:tbl ~offsets:offs ~sizes:szs in
        pkg_case emit be l row lens in
  (* every column subset, every row: contributions at distinct in-range positions *)
  List.iter (fun v2 ->
    let codes = if v2 then v2_codes else v5_codes in
    let k = List.length codes in
    for mask = 0 to (1 lsl k) - 1 do
      let cols = List.filteri (fun i _ -> mask land (1 lsl i) <> 0) codes in
      let nc = List.length cols in
      let units = 3 in
      let lens = Array.init 10 (fun i -> 40 + i) in
      let offs = List.init (units * nc) (fun i -> Z.of_int (1 + (i * 5) mod 23)) in
      let szs = List.init (units * nc) (fun i -> Z.of_int (1 + (i * 3) mod 11)) in
      for row = 0 to units + 1 do one (mask land 1 = 1) v2 cols units (Z.of_int row) lens offs szs done
    done) [true; false];
  for_random ~seed ~n (fun r ->
    let be = rand_bool r and v2 = rand_bool r in
    let codes = if v2 then v2_codes else v5_codes in
    let cols = List.filter (fun _ -> rand_int r 3 > 0) codes in
    let cols = if rand_int r 5 = 0 then cols @ [List.nth codes (rand_int r (List.length codes))] else cols in
    let cols = truncate_list cols 8 in
    let nc = List.length cols in
    let units = 1 + rand_int r 3 in
    let lens = Array.init 10 (fun _ -> rand_int r 24) in
    let small () = match rand_int r 8 with 0 -> boundary_u32 r | _ -> Z.of_int (rand_int r 26) in
    let offs = List.init (units * nc) (fun _ -> small ()) in
    let szs = List.init (units * nc) (fun _ -> small ()) in
    one be v2 cols units (Z.of_int (rand_int r (units + 2))) lens offs szs
  )

(* ---- whole packages: both indexes populated, compilation units and type units (c17.dwp) ----
   The generator builds the units, the package sections (contributions in shuffled order with gaps), and the two
   indexes; expected = model (IndexRd on the index bytes) + the generator's knowledge of which unit was packaged
   where. The harness prints what find_cu / find_tu / cu_sections / tu_sections really return and parse. *)
let uleb (v : Z.t) : int list = ints_of_bytes (LebSpec.enc_uleb (nz v))
type punit = { is_tu : bool; uid : Z.t; uname : int list; parts : (int * int list) array (* per kind code *) }

let sect_code ~v2 kind = match v2, kind with
  | _, 1 -> 1 | true, 9 -> 2 | _, 0 -> 3 | _, 2 -> 4 | true, 3 -> 5 | false, 4 -> 5 | _, 8 -> 6
  | true, 5 -> 7 | true, 6 -> 8 | false, 6 -> 7 | false, 7 -> 8 | _ -> 0

let mk_unit r be ~v2 ~is_tu ~(uid : Z.t) ~(ord : int) : punit =
  let name = List.init (1 + rand_int r 5) (fun _ -> 0x61 + rand_int r 26) @ [0x30 + ord] in
  let extra = [2] @ uleb (Z.of_int (0x100 + ord * 3 + (if is_tu then 1 else 0))) @ [0; 0; 0] in
  let abbrev =
    (if is_tu then [1; 0x41; 0; 0x03; 0x08; 0; 0]
     else if v2 then [1; 0x11; 0; 0x03; 0x08; 0xb1; 0x42; 0x07; 0; 0]
     else [1; 0x11; 0; 0x03; 0x08; 0; 0]) @ extra @ [0] in
  let die = [1] @ name @ [0] @ (if (not is_tu) && v2 then enc be 8 uid else []) in
  let body =
    if v2 then
      enc be 2 (Z.of_int 4) @ enc be 4 Z.zero @ [8]
      @ (if is_tu then enc be 8 uid @ enc be 4 (Z.of_int 23) else []) @ die
    else
      enc be 2 (Z.of_int 5) @ [if is_tu then 6 else 5] @ [8] @ enc be 4 Z.zero @ enc be 8 uid
      @ (if is_tu then enc be 4 (Z.of_int 24) else []) @ die in
  let unit_bytes = enc be 4 (Z.of_int (List.length body)) @ body in
  let blob k = List.init (2 + rand_int r 9) (fun i -> (ord * 37 + k * 11 + i * 5 + (if is_tu then 128 else 0)) land 255) in
  let parts = Array.init 10 (fun k ->
    (k, if k = 0 then abbrev else if k = 1 && (not is_tu || not v2) then unit_bytes
        else if k = 9 && is_tu && v2 then unit_bytes else blob k)) in
  { is_tu; uid; uname = name; parts }

let facts_s (u : punit) ~v2 =
  Printf.sprintf "U%d.%s.%s" (if u.is_tu then (if v2 then 2 else 6) else (if v2 then 1 else 5)) (Z.to_string u.uid) (hex_of_ints u.uname)

let dwp_case emit ~seed be ~v2 (cus : punit list) (tus : punit list) ~cu_cols ~tu_cols ~cu_slots ~tu_slots (extra_ids : Z.t list) =
  let r = mk_rng (seed + 17) in
  (* package sections: contributions of all units in shuffled order, with gaps *)
  let bufs = Array.make 10 [] in
  let where : (int * int * int, punit) Hashtbl.t = Hashtbl.create 16 in   (* (kind, off, size) -> unit *)
  let contrib : (punit * (int * int) array) list ref = ref [] in
  let all = List.map (fun u -> (rand_int r 1000, u)) (cus @ tus) |> List.sort compare |> List.map snd in
  List.iter (fun u ->
    let cols = if u.is_tu then tu_cols else cu_cols in
    let pos = Array.make 10 (0, 0) in
    List.iter (fun k ->
      let gap = List.init (rand_int r 4) (fun _ -> 0xee) in
      let bytes = snd u.parts.(k) in
      let off = List.length bufs.(k) + List.length gap in
      bufs.(k) <- bufs.(k) @ gap @ bytes;
      pos.(k) <- (off, List.length bytes);
      if k = 1 || k = 9 then Hashtbl.replace where (k, off, List.length bytes) u) cols;
    contrib := (u, pos) :: !contrib) all;
  let index_of (us : punit list) cols slots =
    let n = List.length us in
    let rows = List.mapi (fun i u -> (u, i + 1)) us in
    let tbl = match build_table slots (List.map (fun (u, row) -> (u.uid, Z.of_int row)) rows) with
      | Some t -> t | None -> failwith "dwp: table full" in
    let offs = List.concat_map (fun u -> let pos = List.assq u !contrib in List.map (fun k -> Z.of_int (fst pos.(k))) cols) us in
    let szs = List.concat_map (fun u -> let pos = List.assq u !contrib in List.map (fun k -> Z.of_int (snd pos.(k))) cols) us in
    mk_index be ~v2 ~pad:0 ~cols:(List.map (sect_code ~v2) cols) ~unit_count:(Z.of_int n) ~slots:tbl ~offsets:offs ~sizes:szs in
  let cu_l = index_of cus cu_cols cu_slots and tu_l = index_of tus tu_cols tu_slots in
  let ids = List.sort_uniq Z.compare (List.map (fun u -> u.uid) (cus @ tus) @ extra_ids) in
  let maxrow = max (List.length cus) (List.length tus) + 1 in
  let rows = List.init (maxrow + 1) (fun i -> i) in
  let lens = Array.map List.length bufs in
  let case = Printf.sprintf "c17.dwp %d %s %s %s %d%s %d" (bflag be) (hex_of_ints cu_l) (hex_of_ints tu_l)
      (cat " " (Array.to_list (Array.map hex_of_ints bufs))) (List.length ids)
      (cat "" (List.map (fun z -> " " ^ Z.to_string z) ids)) maxrow in
  both emit case (fun dbg ->
    guard (fun () ->
      let parse l = match I.index_parse dbg be (bytes_of_ints l) with
        | Res.Ok ix -> ix | Res.Panic -> raise MPanic | _ -> failwith "dwp: generated index does not parse" in
      let cix = parse cu_l and tix = parse tu_l in
      let by_row ix row =
        match I.pkg_sections dbg be ix (ni row) (fun k -> ni lens.(kind_code k)) with
        | Res.Ok l ->
            let units = List.filter_map (fun ((k, o), z) ->
              let kc = kind_code k in
              if (kc = 1 || kc = 9) && int_of_n z > 0 then
                Some (match Hashtbl.find_opt where (kc, int_of_n o, int_of_n z) with Some u -> facts_s u ~v2 | None -> "U?")
              else None)
              (List.sort (fun ((a, _), _) ((b, _), _) -> compare (kind_code a) (kind_code b)) l) in
            cat " " (List.map (fun ((k, o), z) -> Printf.sprintf "%d.%s.%s" (kind_code k) (sn o) (sn z)) l)
            ^ " " ^ (if units = [] then "-" else cat "+" units)
        | Res.Err e -> "E:" ^ ename e
        | Res.Panic -> raise MPanic | Res.OutOfFuel -> raise MFuel in
      let by_id ix id = match I.index_find dbg be ix (nz id) with
        | Res.Ok None -> "none" | Res.Ok (Some row) -> by_row ix (int_of_n row)
        | Res.Err e -> "E:" ^ ename e | Res.Panic -> raise MPanic | Res.OutOfFuel -> raise MFuel in
      cat " | " (List.map (fun id -> Printf.sprintf "%s:C=%s;T=%s" (Z.to_string id) (by_id cix id) (by_id tix id)) ids
                 @ List.map (fun row -> Printf.sprintf "R%d:C=%s;T=%s" row (by_row cix row) (by_row tix row)) rows)))

let gen_dwp ~seed ~n emit =
  let one r =
    let be = rand_bool r and v2 = rand_bool r in
    let ncu = 1 + rand_int r 3 and ntu = 1 + rand_int r 4 in
    let lo = Z.of_int (rand_int r 4) in
    (* ids colliding in their low bits; sometimes a TU signature equal to a CU's dwo id *)
    let fresh used =
      let rec go k = let id = Z.logand (Z.add lo (Z.add (Z.shift_left (Z.of_int (rand_int r 6)) 32) (Z.of_int (8 * rand_int r 4)))) u64max in
        if Z.sign id = 0 || List.exists (Z.equal id) used then (if k > 50 then Z.add (rand_z64 r) Z.one else go (k + 1)) else id in go 0 in
    let cu_ids = List.fold_left (fun acc _ -> fresh acc :: acc) [] (List.init ncu (fun i -> i)) in
    let tu_ids = List.fold_left (fun acc i ->
        (if i = 0 && rand_int r 3 = 0 then List.hd cu_ids else fresh (acc @ cu_ids)) :: acc) [] (List.init ntu (fun i -> i)) in
    let tu_ids = List.sort_uniq Z.compare tu_ids in
    let cus = List.mapi (fun i id -> mk_unit r be ~v2 ~is_tu:false ~uid:id ~ord:i) cu_ids in
    let tus = List.mapi (fun i id -> mk_unit r be ~v2 ~is_tu:true ~uid:id ~ord:(i + 4)) tu_ids in
    let opt l = List.filter (fun _ -> rand_int r 4 > 0) l in
    let cu_cols = if v2 then [1; 0] @ opt [2; 3; 8; 5; 6] else [1; 0] @ opt [2; 4; 8; 6; 7] in
    let tu_cols = if v2 then [9; 0] @ opt [2; 8] else [1; 0] @ opt [2; 8] in
    let cu_cols = if rand_bool r then List.rev cu_cols else cu_cols in
    let pow2_above k = let rec go p = if p > k then p else go (2 * p) in go 1 in
    let cu_slots = pow2_above ncu * (1 lsl rand_int r 2) and tu_slots = pow2_above (List.length tus) * (1 lsl rand_int r 2) in
    let absent = List.concat_map (fun id -> [Z.logxor id (p2 32); Z.logand (Z.add id (Z.of_int 8)) u64max]) (truncate_list (cu_ids @ tu_ids) 3) @ [Z.zero] in
    dwp_case emit ~seed:(rand_int r 1000000) be ~v2 cus tus ~cu_cols ~tu_cols ~cu_slots ~tu_slots absent in
  (* 96 packages even when n = 0: (ncu, ntu, version, byte order) are drawn per package *)
  for_random ~seed:(seed * 7919 + 13) ~n:(96 + n) one

(* ================================================================== .debug_names *)

let show_opt pr = function None -> "-" | Some v -> pr v
let idxs (c : Z.t) : Z.t list =
  let m = Z.to_int (Z.min c (Z.of_int 4)) in
  List.init m Z.of_int @ [c]

let show_nval = function
  | Nm.NVUnsigned v -> "u" ^ sn v | Nm.NVOffset v -> "o" ^ sn v | Nm.NVFlag b -> if b then "f1" else "f0"
let show_tu = function Datatypes.Coq_inl v -> "L" ^ sn v | Datatypes.Coq_inr v -> "F" ^ sn v

let show_entry dbg be (ix : Nm.name_index) (e : Nm.nentry) =
  let attrs = cat "," (List.map (fun a ->
    Printf.sprintf "%s.%s.%s" (sn a.Nm.at_name) (sn a.Nm.at_form) (show_nval a.Nm.at_value)) e.Nm.ne_attrs) in
  let par = rs (function
      | None -> "-" | Some None -> "none"
      | Some (Some v) -> sn v ^ "(" ^ rs (fun p -> sn p.Nm.ne_tag) (Nm.ni_name_entry dbg be ix v) ^ ")") (Nm.ne_parent e) in
  Printf.sprintf "%s.%s.%s{%s}cu=%s,tu=%s,die=%s,par=%s,th=%s" (sn e.Nm.ne_offset) (sn e.Nm.ne_code) (sn e.Nm.ne_tag) attrs
    (rs (show_opt sn) (Nm.ne_compile_unit dbg be ix e))
    (rs (show_opt show_tu) (Nm.ne_type_unit dbg be ix e))
    (rs (show_opt sn) (Nm.ne_die_offset e)) par
    (rs (show_opt sn) (Nm.ne_type_hash e))

let show_name_index dbg be (ix : Nm.name_index) (probes : Z.t list) =
  let zc f = z_of_n f in
  let abbr = cat " " (List.map (fun a ->
    Printf.sprintf "%s.%s(%s)" (sn a.Nm.na_code) (sn a.Nm.na_tag)
      (cat "," (List.map (fun (n, f) -> sn n ^ "." ^ sn f) a.Nm.na_attrs))) ix.Nm.ni_abbrevs) in
  let over c f = cat "," (List.map (fun i -> rs sn (f (nz i))) (idxs c)) in
  let cu = over (zc ix.Nm.ni_cu_count) (Nm.ni_compile_unit dbg be ix) in
  let dcu = rs (show_opt sn) (Nm.ni_default_compile_unit dbg be ix) in
  let lt = over (zc ix.Nm.ni_ltu_count) (Nm.ni_local_type_unit dbg be ix) in
  let ft = over (zc ix.Nm.ni_ftu_count) (Nm.ni_foreign_type_unit dbg be ix) in
  let tc = rs sn (Nm.ni_type_unit_count dbg ix) in
  let tu = cat "," (List.map (fun i -> rs show_tu (Nm.ni_type_unit dbg be ix (nz i)))
                      (idxs (Z.min u32max (Z.add (zc ix.Nm.ni_ltu_count) (zc ix.Nm.ni_ftu_count))))) in
  let bk = cat " " (List.map (fun b ->
    Z.to_string b ^ "=" ^ rs (function
      | None -> "empty"
      | Some (items, st) -> "[" ^ cat "," (List.map (fun (i, h) -> sn i ^ "." ^ sn h) items) ^ "]" ^ stop_s st)
      (Nm.ni_find_by_bucket dbg be ix (nz b))) (idxs (zc ix.Nm.ni_bucket_count))) in
  let q = cat " " (List.map (fun h ->
    Z.to_string h ^ "=" ^ rs (fun (items, st) -> "[" ^ cat "," (List.map sn items) ^ "]" ^ stop_s st)
      (Nm.ni_find_by_hash dbg be ix (nz h))) probes) in
  let nm = cat " " (List.map (fun i ->
    Z.to_string i ^ "=" ^ rs sn (Nm.ni_name_string_offset dbg be ix (nz i)) ^ "/" ^
    rs (fun (es, st) -> "[" ^ cat "|" (List.map (show_entry dbg be ix) es) ^ "]" ^ stop_s st)
      (Nm.ni_name_entries dbg be ix (nz i))) (idxs (zc ix.Nm.ni_name_count))) in
  Printf.sprintf "A %s ; CU %s ; D %s ; LT %s ; FT %s ; TC %s ; TU %s ; B %s ; Q %s ; N %s" abbr cu dcu lt ft tc tu bk q nm

let show_names dbg be (bs : Byte0.byte list) (probes : Z.t list) =
  guard (fun () ->
    let (hs, st) = Nm.name_headers dbg be bs in
    let parts = List.map (fun h ->
      let hd = Printf.sprintf "H %s %s %d %s %s %s %s %s %s %s" (sn h.Nm.nh_offset) (sn h.Nm.nh_length)
          (if h.Nm.nh_fmt64 then 64 else 32) (sn h.Nm.nh_cu_count) (sn h.Nm.nh_ltu_count) (sn h.Nm.nh_ftu_count)
          (sn h.Nm.nh_bucket_count) (sn h.Nm.nh_name_count) (sn h.Nm.nh_abbrev_size)
          (match h.Nm.nh_aug with None -> "none" | Some a -> hex_of_bytes a) in
      match Nm.name_index_new dbg h with
      | Res.Ok ix -> hd ^ " ; " ^ show_name_index dbg be ix probes
      | Res.Err e -> hd ^ " ; I E:" ^ ename e
      | Res.Panic -> raise MPanic | Res.OutOfFuel -> raise MFuel) hs in
    cat " ; " (parts @ ["S" ^ stop_s st]))

let names_case emit be wf (l : int list) (probes : Z.t list) =
  let bs = bytes_of_ints l in
  let case = Printf.sprintf "c17.names %d %d %s %d%s" (bflag be) (bflag wf) (hex_of_ints l) (List.length probes)
      (cat "" (List.map (fun z -> " " ^ Z.to_string z) probes)) in
  both emit case (fun dbg -> show_names dbg be bs probes)

let uleb (v : Z.t) : int list = ints_of_bytes (LebSpec.enc_uleb (nz v))

(* supported forms and a value encoder *)
let forms = [| 0x0c; 0x19; 0x0b; 0x05; 0x06; 0x07; 0x0f; 0x11; 0x12; 0x13; 0x14; 0x15 |]
let enc_form r be form (want : Z.t option) : int list =
  let v w = match want with Some v -> Z.logand v (Z.pred (p2 (8 * w))) | None -> Z.logand (rand_z64 r) (Z.pred (p2 (8 * w))) in
  match form with
  | 0x0c -> [if rand_bool r then 1 else rand_int r 3]
  | 0x19 -> []
  | 0x0b | 0x11 -> enc be 1 (v 1)
  | 0x05 | 0x12 -> enc be 2 (v 2)
  | 0x06 | 0x13 -> enc be 4 (v 4)
  | 0x07 | 0x14 -> enc be 8 (v 8)
  | 0x0f | 0x15 -> uleb (match want with Some v -> v | None -> if rand_int r 4 = 0 then boundary_z64 r else Z.of_int (rand_int r 1000))
  | _ -> rand_bytes r (rand_int r 3)

type nidx = { fmt64 : bool; aug : int list; cus : Z.t list; ltus : Z.t list; ftus : Z.t list;
              bc : int; hashes : Z.t list; (* in table order *)
              abbrevs : (Z.t * Z.t * (int * int) list) list; with_abbrev_null : bool }

(* encode one name index; returns the bytes *)
let build_names r be (d : nidx) ~(bucket_override : Z.t list option) ~(drop_hashes : bool) : int list =
  let nc = List.length d.hashes in
  (* entry pool: for each name a series of 1..3 entries, then a 0 *)
  let pool = ref [] and plen = ref 0 in
  let add l = pool := !pool @ l; plen := !plen + List.length l in
  let prev_offsets = ref [] in
  let entry_offs = List.map (fun _ ->
    let start = !plen in
    if d.abbrevs <> [] then begin
      let k = 1 + rand_int r 3 in
      for _ = 1 to k do
        let (code, _, attrs) = List.nth d.abbrevs (rand_int r (List.length d.abbrevs)) in
        let eoff = !plen in
        add (uleb code);
        List.iter (fun (name, form) ->
          let want = match name with
            | 1 -> Some (Z.of_int (rand_int r (List.length d.cus + 1)))
            | 2 -> Some (Z.of_int (rand_int r (List.length d.ltus + List.length d.ftus + 1)))
            | 4 -> (match !prev_offsets with [] -> Some (Z.of_int (rand_int r 40))
                                         | l -> Some (Z.of_int (List.nth l (rand_int r (List.length l)))))
            | _ -> None in
          let want = if rand_int r 12 = 0 then None else want in
          add (enc_form r be form want)) attrs;
        prev_offsets := eoff :: !prev_offsets
      done
    end;
    if rand_int r 15 > 0 then add [0];
    Z.of_int start) d.hashes in
  let entry_offs = List.map (fun o -> if rand_int r 25 = 0 then Z.add o (Z.of_int (rand_int r 50)) else o) entry_offs in
  let abbrev_bytes =
    List.concat_map (fun (code, tag, attrs) ->
      ints_of_bytes (L.enc_nabbrev (nz code) (nz tag) (List.map (fun (a, b) -> (ni a, ni b)) attrs))) d.abbrevs
    @ (if d.with_abbrev_null then [0] else []) in
  let hs = List.map nz d.hashes in
  let buckets = match bucket_override with
    | Some b -> List.map nz b
    | None -> if d.bc = 0 then [] else L.build_buckets (ni d.bc) hs in
  let desc = { L.n_fmt64 = d.fmt64; n_aug = bytes_of_ints d.aug; n_cus = List.map nz d.cus; n_ltus = List.map nz d.ltus;
               n_ftus = List.map nz d.ftus; n_buckets = buckets; n_name_count = ni nc;
               n_hashes = (if drop_hashes || buckets = [] then [] else hs);
               n_stroffs = List.init nc (fun i -> ni (i * 5));
               n_entryoffs = List.map nz entry_offs;
               n_abbrev = bytes_of_ints abbrev_bytes; n_pool = bytes_of_ints !pool } in
  ints_of_bytes (L.enc_names be desc)

let rand_abbrevs r =
  let k = rand_int r 4 in
  List.init k (fun i ->
    let code = if rand_int r 8 = 0 then Z.of_int (1 + rand_int r 2) else Z.of_int (i + 1) in
    let code = if rand_int r 20 = 0 then boundary_z64 r else code in
    let code = if Z.sign code = 0 then Z.one else code in
    let tag = Z.of_int (match rand_int r 6 with 0 -> 0x11 | 1 -> 0x2e | 2 -> 0x24 | 3 -> 0x13 | 4 -> 0xffff | _ -> 1 + rand_int r 0x4109) in
    let na = rand_int r 5 in
    let attrs = List.init na (fun _ ->
      let name = match rand_int r 8 with 0 -> 0x2000 | 1 -> 0x3fff | _ -> 1 + rand_int r 5 in
      let form = if rand_int r 25 = 0 then 1 + rand_int r 0x30 else
          (match name with
           | 1 | 2 -> pick r [| 0x0b; 0x05; 0x06; 0x07; 0x0f |]
           | 3 -> pick r [| 0x11; 0x12; 0x13; 0x14; 0x15 |]
           | 4 -> pick r [| 0x19; 0x13; 0x11; 0x15; 0x0c |]
           | 5 -> 0x07
           | _ -> pick r forms) in
      (name, form)) in
    (code, tag, attrs))

let sort_by_bucket bc hashes =
  if bc = 0 then hashes else
  List.stable_sort (fun a b -> compare (Z.to_int (Z.rem a (Z.of_int bc))) (Z.to_int (Z.rem b (Z.of_int bc)))) hashes

let rand_hashes r bc nc =
  let pool = Array.init 6 (fun _ -> Z.logand (rand_z64 r) u32max) in
  List.init nc (fun _ ->
    match rand_int r 5 with
    | 0 -> pool.(rand_int r 6)                                         (* duplicate hashes *)
    | 1 -> Z.of_int (rand_int r (3 * max 1 bc + 1))                   (* small: many per bucket *)
    | 2 -> if bc > 0 then Z.logand (Z.add pool.(0) (Z.of_int (bc * rand_int r 5))) u32max else pool.(1)  (* same bucket, other hash *)
    | 3 -> boundary_u32 r
    | _ -> Z.logand (rand_z64 r) u32max)

let hash_probes r bc (hashes : Z.t list) =
  let present = List.sort_uniq Z.compare hashes in
  let absent = List.concat_map (fun h ->
      if bc > 0 then [Z.logand (Z.add h (Z.of_int bc)) u32max] else [Z.logand (Z.succ h) u32max]) (truncate_list present 3)
    @ [Z.zero; u32max; Z.logand (rand_z64 r) u32max] in
  present @ List.filter (fun a -> not (List.exists (Z.equal a) present)) absent

let gen_names ~seed ~n emit =
  let r = mk_rng seed in
  let basic = { fmt64 = false; aug = []; cus = [Z.of_int 0x10]; ltus = []; ftus = []; bc = 0; hashes = [];
                abbrevs = []; with_abbrev_null = true } in
  (* 1. tiny and empty sections *)
  List.iter (fun be ->
    names_case emit be false [] [Z.zero];
    for len = 1 to 12 do names_case emit be false (List.init len (fun i -> if i = 0 then 36 else 0)) [Z.one] done) [false; true];
  (* 2. abbreviation tables: every 1- and 2-byte table, wrapped in an index without names *)
  let wrap be fmt64 (abbrev : int list) =
    let desc = { L.n_fmt64 = fmt64; n_aug = []; n_cus = [ni 0]; n_ltus = []; n_ftus = []; n_buckets = [];
                 n_name_count = ni 0; n_hashes = []; n_stroffs = []; n_entryoffs = [];
                 n_abbrev = bytes_of_ints abbrev; n_pool = [] } in
    ints_of_bytes (L.enc_names be desc) in
  for a = 0 to 255 do names_case emit false false (wrap false false [a]) [] done;
  for a = 0 to 255 do for b = 0 to 255 do
    if a < 4 || a land 0x7f < 2 || b < 3 || b land 0x7f < 2 || (a + b) mod 37 = 0 then
      names_case emit false false (wrap false false [a; b]) [] done done;
  for _ = 1 to 300 do
    let len = 3 + rand_int r 10 in
    let ab = List.init len (fun _ -> match rand_int r 5 with 0 -> 0 | 1 -> 0x80 lor rand_int r 128 | 2 -> 1 + rand_int r 5 | _ -> rand_int r 256) in
    names_case emit (rand_bool r) false (wrap (rand_bool r) (rand_bool r) ab) []
  done;
  (* 3. bucket counts 0/1/n x name counts 0..6 x formats x augmentation lengths: well-formed tables *)
  List.iter (fun bc -> for nc = 0 to 6 do List.iter (fun fmt64 ->
    let be = (nc + bc) land 1 = 1 in
    let hashes = sort_by_bucket bc (rand_hashes r bc nc) in
    let d = { basic with fmt64; aug = List.init (nc mod 6) (fun i -> 0x41 + i); bc; hashes;
              cus = List.init (1 + nc mod 3) (fun i -> Z.of_int (0x100 * i));
              ltus = List.init (nc mod 3) (fun i -> Z.of_int (0x1000 + i));
              ftus = List.init (nc mod 2 + bc mod 2) (fun i -> Z.add (p2 60) (Z.of_int i));
              abbrevs = [ (Z.one, Z.of_int 0x2e, [(3, 0x13); (4, 0x19)]);
                          (Z.of_int 2, Z.of_int 0x13, [(1, 0x0b); (2, 0x0f); (3, 0x13); (4, 0x13); (5, 0x07)]) ] } in
    let l = build_names r be d ~bucket_override:None ~drop_hashes:false in
    names_case emit be true l (hash_probes r bc hashes)) [false; true] done) [0; 1; 2; 3; 5; 8];
  (* 4. random structured and malformed *)
  for_random ~seed ~n (fun r ->
    let be = rand_bool r in
    let bc = match rand_int r 6 with 0 -> 0 | 1 -> 1 | _ -> 1 + rand_int r 7 in
    let nc = rand_int r 9 in
    let hashes = sort_by_bucket bc (rand_hashes r bc nc) in
    let d = { fmt64 = rand_int r 4 = 0; aug = rand_bytes r (rand_int r 10);
              cus = List.init (rand_int r 4) (fun _ -> boundary_u32 r);
              ltus = List.init (rand_int r 3) (fun _ -> boundary_u32 r);
              ftus = List.init (rand_int r 3) (fun _ -> boundary_z64 r);
              bc; hashes; abbrevs = rand_abbrevs r; with_abbrev_null = rand_int r 5 > 0 } in
    let kind = rand_int r 10 in
    if kind < 6 then begin
      let l = build_names r be d ~bucket_override:None ~drop_hashes:false in
      let l = if rand_int r 6 = 0 then l @ build_names r be { d with bc = 1 } ~bucket_override:None ~drop_hashes:false else l in
      names_case emit be true l (hash_probes r bc hashes)
    end else if kind < 8 then begin
      (* ill-formed bucket arrays: starts beyond the table, unsorted hashes, missing hash array *)
      let bo = List.init bc (fun _ -> match rand_int r 4 with 0 -> Z.zero | 1 -> Z.of_int (nc + rand_int r 3) | 2 -> boundary_u32 r | _ -> Z.of_int (rand_int r (nc + 1))) in
      let d = { d with hashes = rand_hashes r bc nc } in
      let l = build_names r be d ~bucket_override:(Some bo) ~drop_hashes:(rand_int r 6 = 0) in
      names_case emit be false l (hash_probes r bc d.hashes)
    end else begin
      let l = build_names r be d ~bucket_override:None ~drop_hashes:false in
      let l = mutate r l in
      let l = if rand_bool r then mutate r l else l in
      names_case emit be false l (hash_probes r bc hashes)
    end
  )

(* ================================================================== djb hash *)

let gen_djb ~seed ~n emit =
  let r = mk_rng seed in
  let k (l : int list) =
    let bs = bytes_of_ints l in
    both emit ("c17.djb " ^ hex_of_ints l) (fun _ -> "ok " ^ sn (Nm.djb_hash_ascii bs)) in
  k [];
  for a = 0 to 127 do k [a] done;
  for a = 0 to 127 do for b = 0 to 127 do k [a; b] done done;
  for a = 0x3f to 0x5c do for b = 0x3f to 0x5c do for c = 0x3f to 0x5c do k [a; b; c] done done done;
  for_random ~seed ~n (fun r ->
    let len = match rand_int r 5 with 0 -> rand_int r 4 | 1 -> 20 + rand_int r 60 | _ -> 1 + rand_int r 16 in
    k (List.init len (fun _ -> match rand_int r 6 with
        | 0 -> 0x41 + rand_int r 26 | 1 -> 0x61 + rand_int r 26 | 2 -> pick r [| 0x40; 0x5b; 0x60; 0x7b; 0x7f; 0; 0x5a; 0x41 |]
        | 3 -> 0x30 + rand_int r 10 | 4 -> 0x5f | _ -> rand_int r 128))
  )

let utf8 (cp : int) : int list =
  if cp < 0x80 then [cp]
  else if cp < 0x800 then [0xc0 lor (cp lsr 6); 0x80 lor (cp land 0x3f)]
  else if cp < 0x10000 then [0xe0 lor (cp lsr 12); 0x80 lor ((cp lsr 6) land 0x3f); 0x80 lor (cp land 0x3f)]
  else [0xf0 lor (cp lsr 18); 0x80 lor ((cp lsr 12) land 0x3f); 0x80 lor ((cp lsr 6) land 0x3f); 0x80 lor (cp land 0x3f)]

let gen_djbfold ~seed ~n emit =
  let r = mk_rng seed in
  let k cps = emit_fixed emit ("c17.djbfold " ^ hex_of_ints (List.concat_map utf8 cps)) "ok" in
  (* every scalar value of the BMP and of the supplementary planes that have case pairs, one char per case in blocks of 64 *)
  let block lo hi =
    let cur = ref [] in
    for cp = lo to hi do
      if cp < 0xd800 || cp > 0xdfff then cur := cp :: !cur;
      if List.length !cur = 64 then (k (List.rev !cur); cur := [])
    done;
    if !cur <> [] then k (List.rev !cur) in
  block 0 0xffff; block 0x10000 0x10fff; block 0x16e00 0x16fff; block 0x1e900 0x1e9ff; block 0x10ff00 0x10ffff;
  for_random ~seed ~n (fun r ->
    let len = 1 + rand_int r 12 in
    k (List.init len (fun _ ->
      let cp = match rand_int r 6 with
        | 0 -> rand_int r 128 | 1 -> 0x80 + rand_int r 0x500 | 2 -> 0x1e00 + rand_int r 0x200
        | 3 -> 0x2c00 + rand_int r 0x100 | 4 -> 0x10400 + rand_int r 0x100 | _ -> rand_int r 0x110000 in
      if cp >= 0xd800 && cp <= 0xdfff then 0x130 else cp))
  )

(* ================================================================== aranges *)

let show_aranges dbg be (bs : Byte0.byte list) (ats : Z.t list) =
  guard (fun () ->
    let hd (h : A.arange_header) =
      Printf.sprintf "H %s %s %d %s %s %s" (sn h.A.ah_offset) (sn h.A.ah_length) (if h.A.ah_fmt64 then 64 else 32)
        (sn h.A.ah_version) (sn h.A.ah_info_offset) (sn h.A.ah_addr_size) in
    let (hs, st) = A.arange_headers dbg be bs in
    let parts = List.map (fun h ->
      let (raw, rst) = A.arange_raw_entries dbg be h in
      let (es, est) = A.arange_entries dbg be h in
      Printf.sprintf "%s R[%s]%s E[%s]%s" (hd h)
        (cat "," (List.map (fun (b, l) -> sn b ^ "." ^ sn l) raw)) (stop_s rst)
        (cat "," (List.map (fun ((b, l), e) -> sn b ^ "." ^ sn l ^ "." ^ sn e) es)) (stop_s est)) hs in
    let at = List.map (fun o -> "AT " ^ Z.to_string o ^ "=" ^ rs hd (A.arange_header_at dbg be (nz o) bs)) ats in
    cat " ; " (parts @ ["S" ^ stop_s st] @ at))

let aranges_case emit be (l : int list) (ats : Z.t list) =
  let bs = bytes_of_ints l in
  let case = Printf.sprintf "c17.aranges %d %s %d%s" (bflag be) (hex_of_ints l) (List.length ats)
      (cat "" (List.map (fun z -> " " ^ Z.to_string z) ats)) in
  both emit case (fun dbg -> show_aranges dbg be bs ats)

let mk_arange_set be ~fmt64 ~version ~info ~asz ~seg ~tuples ~tail : int list =
  ints_of_bytes (L.enc_arange_set be { L.a_fmt64 = fmt64; a_version = ni version; a_info_offset = nz info;
                                       a_addr_size = ni asz; a_seg_size = ni seg;
                                       a_tuples = List.map (fun (a, b) -> (nz a, nz b)) tuples;
                                       a_tail = bytes_of_ints tail })

let rand_tuple r asz =
  let m = Z.pred (p2 (8 * asz)) in
  let v () = match rand_int r 8 with
    | 0 -> Z.zero | 1 -> m | 2 -> Z.pred m | 3 -> Z.sub m (Z.of_int 2) | 4 -> Z.of_int (rand_int r 256)
    | 5 -> Z.shift_right m 1 | _ -> Z.logand (rand_z64 r) m in
  match rand_int r 6 with
  | 0 -> (Z.zero, Z.zero)
  | 1 -> let b = v () in (b, Z.logand (Z.succ (Z.sub m b)) m)   (* begin + len = 2^(8s): just overflows *)
  | 2 -> let b = v () in (b, Z.sub m b)                          (* begin + len = max *)
  | _ -> (v (), if rand_bool r then Z.of_int (rand_int r 64) else v ())

let gen_aranges ~seed ~n emit =
  let r = mk_rng seed in
  List.iter (fun be ->
    aranges_case emit be [] [Z.zero; Z.one];
    (* every address-size byte 0..255 x both formats: padding and rejection *)
    for asz = 0 to 255 do List.iter (fun fmt64 ->
      let w = asz land 15 in
      let tuples = if w = 1 || w = 2 || w = 4 || w = 8 then [(Z.of_int 0x10, Z.of_int 4); (Z.zero, Z.zero)] else [] in
      let l = mk_arange_set be ~fmt64 ~version:2 ~info:(Z.of_int 0x40) ~asz ~seg:0
          ~tuples:(if asz = w then tuples else []) ~tail:(if asz = w then [] else List.init 40 (fun i -> i)) in
      aranges_case emit be l []) [false; true] done;
    (* segment sizes, versions *)
    for seg = 0 to 9 do aranges_case emit be (mk_arange_set be ~fmt64:false ~version:2 ~info:Z.zero ~asz:4 ~seg ~tuples:[(Z.one, Z.one)] ~tail:[]) [] done;
    for version = 0 to 7 do aranges_case emit be (mk_arange_set be ~fmt64:(version land 1 = 1) ~version ~info:Z.zero ~asz:8 ~seg:0 ~tuples:[(Z.one, Z.one)] ~tail:[]) [] done;
    (* every valid address size x format x tail length 0..2s (partial trailing tuple) x interior zero tuples/tombstones *)
    List.iter (fun asz -> List.iter (fun fmt64 ->
      let m = Z.pred (p2 (8 * asz)) in
      for tl = 0 to 2 * asz do
        let tuples = [(Z.of_int 1, Z.of_int 2); (Z.zero, Z.zero); (m, Z.zero); (Z.pred m, Z.one); (Z.sub m (Z.of_int 2), Z.one);
                      (Z.zero, Z.of_int 5); (Z.of_int 7, Z.zero); (Z.zero, Z.zero); (Z.zero, Z.zero); (Z.of_int 9, Z.of_int 1)] in
        aranges_case emit be (mk_arange_set be ~fmt64 ~version:2 ~info:(Z.of_int 11) ~asz ~seg:0 ~tuples ~tail:(List.init tl (fun i -> if i = tl - 1 then 1 else 0))) [Z.zero]
      done;
      (* overflow of begin + length *)
      aranges_case emit be (mk_arange_set be ~fmt64 ~version:3 ~info:Z.zero ~asz ~seg:0
                              ~tuples:[(Z.of_int 5, Z.of_int 5); (Z.of_int 2, m); (Z.of_int 6, Z.of_int 6)] ~tail:[]) [];
      aranges_case emit be (mk_arange_set be ~fmt64 ~version:2 ~info:Z.zero ~asz ~seg:0
                              ~tuples:[(Z.of_int 1, Z.pred m); (Z.of_int 1, m)] ~tail:[]) []) [false; true]) [1; 2; 4; 8]) [false; true];
  for_random ~seed ~n (fun r ->
    let be = rand_bool r in
    let nsets = 1 + rand_int r 3 in
    let offs = ref [] and total = ref 0 in
    let l = List.concat (List.init nsets (fun _ ->
      let asz = if rand_int r 12 = 0 then pick r [| 0; 3; 16; 128; 255 |] else pick r [| 1; 2; 4; 8 |] in
      let fmt64 = rand_int r 4 = 0 in
      let w = if asz = 1 || asz = 2 || asz = 4 || asz = 8 then asz else 4 in
      let nt = rand_int r 7 in
      let tuples = List.init nt (fun _ -> rand_tuple r w) in
      let tuples = if asz = w then tuples else [] in
      let tail = match rand_int r 4 with 0 -> [] | 1 -> List.init (2 * w) (fun _ -> 0) | 2 -> rand_bytes r (rand_int r (2 * w)) | _ -> List.init (2 * w) (fun _ -> 0) @ rand_bytes r (rand_int r 4) in
      let s = mk_arange_set be ~fmt64 ~version:(if rand_int r 10 = 0 then rand_int r 6 else 2 + rand_int r 2)
          ~info:(boundary_u32 r) ~asz ~seg:(if rand_int r 12 = 0 then 1 + rand_int r 4 else 0) ~tuples ~tail in
      offs := Z.of_int !total :: !offs; total := !total + List.length s; s)) in
    let l = if rand_int r 4 = 0 then mutate r l else l in
    aranges_case emit be l (List.rev !offs @ [Z.of_int (rand_int r (List.length l + 3))])
  )

(* ================================================================== pubnames / pubtypes *)

let show_pub be (bs : Byte0.byte list) =
  guard (fun () ->
    let (es, st) = A.pub_items be bs in
    "[" ^ cat "," (List.map (fun e -> Printf.sprintf "%s.%s.%s" (sn e.A.pe_die_offset) (sn e.A.pe_unit_offset) (hex_of_bytes e.A.pe_name)) es)
    ^ "]" ^ stop_s st)

let pub_case emit kind be (l : int list) =
  let bs = bytes_of_ints l in
  both emit (Printf.sprintf "c17.pub %s %d %s" kind (bflag be) (hex_of_ints l)) (fun _ -> show_pub be bs)

let mk_pub_set be ~fmt64 ~version ~uoff ~ulen ~entries ~tail : int list =
  ints_of_bytes (L.enc_pub_set be { L.p_fmt64 = fmt64; p_version = ni version; p_unit_offset = nz uoff; p_unit_length = nz ulen;
                                    p_entries = List.map (fun (o, nm) -> (nz o, bytes_of_ints nm)) entries;
                                    p_tail = bytes_of_ints tail })

let gen_pub ~seed ~n emit =
  let r = mk_rng seed in
  let name () = List.init (rand_int r 6) (fun _ -> 1 + rand_int r 255) in
  List.iter (fun be -> List.iter (fun kind ->
    pub_case emit kind be [];
    for len = 1 to 16 do pub_case emit kind be (List.init len (fun i -> if i = 0 then len - 1 else 0)) done;
    List.iter (fun fmt64 ->
      let w = if fmt64 then 8 else 4 in
      for version = 0 to 4 do
        pub_case emit kind be (mk_pub_set be ~fmt64 ~version ~uoff:(Z.of_int 0x20) ~ulen:(Z.of_int 0x30) ~entries:[(Z.one, [0x61])] ~tail:(List.init w (fun _ -> 0)))
      done;
      (* several sets; terminator variants; tail lengths 0..w+1 *)
      for tl = 0 to w + 1 do
        let s1 = mk_pub_set be ~fmt64 ~version:2 ~uoff:(Z.of_int 0x10) ~ulen:(Z.of_int 0x100)
            ~entries:[(Z.of_int 0x2a, [0x6d; 0x61; 0x69; 0x6e]); (Z.of_int 0x31, []); (Z.of_int 0x45, [0x78])] ~tail:(List.init tl (fun _ -> 0)) in
        let s2 = mk_pub_set be ~fmt64:(not fmt64) ~version:2 ~uoff:(Z.of_int 0x200) ~ulen:(Z.of_int 0x50)
            ~entries:[(Z.of_int 0x0b, [0x66; 0x6f; 0x6f])] ~tail:(List.init (if fmt64 then 4 else 8) (fun _ -> 0)) in
        let s3 = mk_pub_set be ~fmt64 ~version:2 ~uoff:(Z.of_int 0x300) ~ulen:Z.zero ~entries:[] ~tail:[] in
        pub_case emit kind be (s1 @ s2); pub_case emit kind be (s1 @ s3 @ s2); pub_case emit kind be (s3 @ s3 @ s1)
      done;
      (* a zero offset in the middle of a set hides the rest of that set only *)
      let mid = mk_pub_set be ~fmt64 ~version:2 ~uoff:(Z.of_int 5) ~ulen:(Z.of_int 6)
          ~entries:[(Z.of_int 9, [0x61])] ~tail:(List.init w (fun _ -> 0) @ enc be w (Z.of_int 0x77) @ [0x62; 0x00]) in
      let nxt = mk_pub_set be ~fmt64 ~version:2 ~uoff:(Z.of_int 7) ~ulen:(Z.of_int 8) ~entries:[(Z.of_int 3, [0x63])] ~tail:[] in
      pub_case emit kind be (mid @ nxt);
      (* unterminated name *)
      pub_case emit kind be (mk_pub_set be ~fmt64 ~version:2 ~uoff:Z.one ~ulen:Z.one ~entries:[(Z.of_int 4, [0x61])] ~tail:(enc be w (Z.of_int 5) @ [0x62; 0x63]) @ nxt))
      [false; true]) ["n"; "t"]) [false; true];
  for_random ~seed ~n (fun r ->
    let be = rand_bool r in
    let kind = if rand_bool r then "n" else "t" in
    let nsets = 1 + rand_int r 3 in
    let l = List.concat (List.init nsets (fun _ ->
      let fmt64 = rand_int r 4 = 0 in
      let w = if fmt64 then 8 else 4 in
      let entries = List.init (rand_int r 5) (fun _ ->
        ((if rand_int r 10 = 0 then (if fmt64 then boundary_z64 r else boundary_u32 r) else Z.of_int (1 + rand_int r 5000)), name ())) in
      let entries = List.filter (fun (o, _) -> Z.sign o <> 0) entries in
      let tail = match rand_int r 5 with 0 -> [] | 1 -> rand_bytes r (rand_int r w) | 2 -> List.init w (fun _ -> 0) @ rand_bytes r (rand_int r 12) | _ -> List.init w (fun _ -> 0) in
      mk_pub_set be ~fmt64 ~version:(if rand_int r 12 = 0 then rand_int r 5 else 2) ~uoff:(boundary_u32 r) ~ulen:(boundary_u32 r) ~entries ~tail)) in
    let l = if rand_int r 4 = 0 then mutate r l else l in
    pub_case emit kind be l
  )

(* ================================================================== indexed tables (oracle only) *)

let gen_indexed ~seed ~n emit =
  let r = mk_rng seed in
  let case kind be sz (base : Z.t) (index : Z.t) (l : int list) =
    let bs = bytes_of_ints l in
    let expected =
      (* the i-th word after the base, or UnexpectedEof when it is not wholly inside the section *)
      let len = Z.of_int (List.length l) in
      let off = Z.add base (Z.mul index (Z.of_int sz)) in
      if Z.gt base len || Z.gt (Z.add off (Z.of_int sz)) len then "err UnexpectedEof"
      else match Prim.read_un (nat_of_int sz) be (List.filteri (fun i _ -> i >= Z.to_int off) bs) with
        | Res.Ok (v, _) -> "ok " ^ sn v | _ -> "err UnexpectedEof" in
    emit_fixed emit (Printf.sprintf "c17.indexed %s %d %d %s %s %s" kind (bflag be) sz (Z.to_string base) (Z.to_string index) (hex_of_ints l)) expected in
  List.iter (fun be ->
    List.iter (fun (kind, sz) ->
      let l = List.init 40 (fun i -> (i * 37 + 11) land 255) in
      for base = 0 to 41 do for index = 0 to 6 do case kind be sz (Z.of_int base) (Z.of_int index) l done done;
      List.iter (fun idx -> if Z.leq idx u64max then (case kind be sz Z.zero idx l; case kind be sz (Z.of_int 8) idx l))
        [u64max; p2 63; p2 62; p2 61; Z.pred (p2 61); p2 32; Z.div u64max (Z.of_int sz); Z.succ (Z.div u64max (Z.of_int sz))];
      List.iter (fun b -> case kind be sz b Z.zero l; case kind be sz b Z.one l) [u64max; p2 63; Z.of_int 40; Z.of_int 41])
      [("s", 4); ("s", 8); ("a", 1); ("a", 2); ("a", 4); ("a", 8)]) [false; true];
  for_random ~seed ~n (fun r ->
    let be = rand_bool r in
    let (kind, sz) = pick r [| ("s", 4); ("s", 8); ("a", 1); ("a", 2); ("a", 4); ("a", 8) |] in
    let len = rand_int r 64 in
    let l = rand_bytes r len in
    let base = if rand_int r 10 = 0 then boundary_z64 r else Z.of_int (rand_int r (len + 2)) in
    let index = if rand_int r 10 = 0 then boundary_z64 r else Z.of_int (rand_int r (len / sz + 2)) in
    case kind be sz base index l
  )

(* ================================================================== loader wiring + corpus (impl-side oracles) *)

let corpus_dir () =
  try Sys.getenv "GV_CORPUS" with Not_found ->
    Filename.concat (Filename.dirname Sys.executable_name) "../corpus/sections"
let variants () : string array =
  let a = try Sys.readdir (corpus_dir ()) with _ -> [||] in
  Array.sort compare a; a

let gen_wiring ~seed:_ ~n:_ emit =
  let k api arg = emit_fixed emit (Printf.sprintf "c17.wiring %s %d" api arg) "ok" in
  List.iter (fun api -> k api 0)
    ["sections_load"; "sections_borrow"; "sections_borrow_with_sup"; "dwarf_load"; "dwarf_load_sup"; "dwarf_borrow";
     "make_dwo"; "package_sections_load"; "package_load"; "package_borrow"; "section_names"];
  (* a loader failing on the k-th section it is asked for: the error must be that section's *)
  for i = 0 to 15 do k "sections_load_fail" i; k "dwarf_load_fail" i done;
  for i = 0 to 12 do k "package_load_fail" i done;
  (* DwarfPackage::sections: every column subset of versions 2 and 5 *)
  for mask = 0 to 255 do k "package_unit_v2" mask done;
  for mask = 0 to 127 do k "package_unit_v5" mask done

let gen_corpus ~seed:_ ~n:_ emit =
  let vs = variants () in
  if Array.length vs = 0 then emit_fixed emit "c17.corpus all missing-corpus" "ok" else
  Array.iter (fun v ->
    let has s = Sys.file_exists (Filename.concat (Filename.concat (corpus_dir ()) v) s) in
    let k kind = emit_fixed emit (Printf.sprintf "c17.corpus %s %s" kind v) "ok" in
    if has "debug_aranges" then k "aranges";
    if has "debug_pubnames" || has "debug_pubtypes" then k "pub";
    if has "debug_names" then k "names";
    if has "debug_cu_index" || has "debug_tu_index" then k "dwp";
    if has "debug_str_offsets" || has "debug_addr" || has "debug_str_offsets.dwo" then k "indexed") vs

let () =
  register "c17.index" ~doc:"UnitIndex::parse/find/sections: tables built by insertion at every load factor (slot counts 1..32, colliding ids, full tables), every column-kind subset of v2/v5, every column code 0..300, rejected slot counts, version variants, mutated/truncated sections; every present id and absent ids probed; harness oracle find = exhaustive scan"
    gen_index;
  register "c17.findzero" ~doc:"UnitIndex::find(0) / DwarfPackage::find_cu(0) / find_tu(0): id 0 is the unused-slot marker and never present (regression for 8339644)"
    gen_findzero;
  register "c17.pkg" ~doc:"DwarfPackage::cu_sections contribution ranges (Section::dwp_range) for every column subset and row, random out-of-range contributions"
    gen_pkg;
  register "c17.dwp" ~doc:"whole generated packages: 1..3 compilation units and 1..4 type units (v2 with .debug_types.dwo, v5 with type units in .debug_info.dwo), both indexes populated with different column sets, ids colliding in their low bits (sometimes a signature equal to a dwo id), overlapping row numbers with different contributions, TU rows beyond the CU count; find_cu / find_tu / cu_sections / tu_sections for every id and row: contributions and the parsed unit (type, id, name)"
    gen_dwp;
  register "c17.names" ~doc:"debug_names: header, NameIndex::new layout, CU/TU lists, abbreviations (every 1-2 byte table), bucket and hash iteration (bucket counts 0/1/n, duplicate hashes), entry pool with parent chains and type units; ill-formed buckets; mutations"
    gen_names;
  register "c17.djb" ~doc:"case_folding_djb_hash on ASCII strings: all strings of length <= 2, 30^3 grid around the letter boundaries, random"
    gen_djb;
  register "c17.djbfold" ~doc:"case_folding_djb_hash on every Unicode scalar value of the BMP and cased supplementary blocks vs per-char case_fold (impl-side oracle; exhaustive: true)"
    gen_djbfold;
  register "c17.aranges" ~doc:"debug_aranges: every address-size byte 0..255, padding per size/format, zero tuples, tombstones, end overflow, partial trailing tuples, several sets, header(offset)"
    gen_aranges;
  register "c17.pub" ~doc:"debug_pubnames/pubtypes: several sets, zero offset ends a set, missing terminators, formats, versions, mutations"
    gen_pub;
  register "c17.indexed" ~doc:"DebugStrOffsets::get_str_offset / DebugAddr::get_address = the i-th word after the base (oracle), incl. overflowing indices"
    gen_indexed;
  register "c17.strbase" ~doc:"implicit DW_AT_str_offsets_base: versions 2-5 x both formats x both byte orders x {main, dwo} x index 0..5 (exhaustive: true): Unit::new picks the header size of .debug_str_offsets in a v5 .dwo and 0 otherwise, and the indexed name resolves to the entry an exhaustive scan finds"
    (fun ~seed:_ ~n:_ emit ->
      List.iter (fun ver -> List.iter (fun fmt -> List.iter (fun be -> List.iter (fun dwo ->
        for idx = 0 to 5 do
          emit_fixed emit (Printf.sprintf "c17.strbase %d %d %d %d %d" ver fmt be dwo idx) "ok"
        done) [0; 1]) [0; 1]) [4; 8]) [2; 3; 4; 5]);
  register "c17.wiring" ~doc:"loader wiring: marker-returning loader, every field of DwarfSections/Dwarf/sup/make_dwo/DwarfPackage(Sections)/package units checked (exhaustive: true)"
    gen_wiring;
  register "c17.corpus" ~doc:"compiler corpus: aranges/pubnames/pubtypes/debug_names/dwp index lookups vs exhaustive scans; package unit = standalone .dwo unit"
    gen_corpus
let init () = ()
