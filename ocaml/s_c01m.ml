(* s_c01m.ml — C01 extension: src/read/macros.rs (Model/MacroRd.v, Spec/MacroSpec.v).
   Streams (prefix c0101 = harness/src/c0101.rs; the harness dispatcher needs a `c<digits>` family name):
     c0101.info   model kind: DebugMacinfo::get_macinfo + MacroIter driven to exhaustion, errors ignored
     c0101.macro  model kind: DebugMacro::get_macros   + MacroIter driven to exhaustion, errors ignored
     c0101.rt     spec kind : sections built by the extracted encoders enc_unit / enc_macinfo from well-formed
                  entry lists; the expected column is printed from the ENTRY LIST (not from the model) —
                  theorem macro_roundtrip says the model returns exactly that.
   Canonical result: `err <Variant>` when get_* fails, else `ok <token per step> end`; tokens as in c0101.rs. *)
open Conv
open Streams
open MacroSpec

let sn = string_of_n
let nz = n_of_z
let p2 k = Z.shift_left Z.one k

(* ------------------------------------------------------------------ canonical tokens (= c0101.rs) *)
let tok_direct total rest_len s = Printf.sprintf "%s@%d" (hex_of_bytes s) (total - rest_len - 1 - List.length s)
let tok_mstr total rest_len = function
  | MDirect s -> "d." ^ tok_direct total rest_len s
  | MStrp o -> "p." ^ sn o
  | MStrx i -> "x." ^ sn i
  | MSup o -> "s." ^ sn o
let tok_entry total rest_len = function
  | MDefine (l, s) -> Printf.sprintf "def:%s:%s" (sn l) (tok_mstr total rest_len s)
  | MUndef (l, s) -> Printf.sprintf "undef:%s:%s" (sn l) (tok_mstr total rest_len s)
  | MStartFile (l, f) -> Printf.sprintf "start:%s:%s" (sn l) (sn f)
  | MEndFile -> "endf"
  | MImport o -> "imp:" ^ sn o
  | MImportSup o -> "imps:" ^ sn o
  | MVendorExt (n, s) -> Printf.sprintf "vend:%s:%s" (sn n) (tok_direct total rest_len s)

(* ------------------------------------------------------------------ the model, driven like the harness *)
let drive dbg be (it0 : MacroRd.miter) total : string =
  let cap = total + 8 in
  let toks = ref [] in
  let push s = toks := s :: !toks in
  let seen_err = ref false and after_err = ref false in
  let step it =
    match MacroRd.macro_next dbg be it with
    | (Res.Ok None, it') -> `None it'
    | (Res.Ok (Some e), it') ->
        if !seen_err then after_err := true;
        push (tok_entry total (List.length it'.MacroRd.mi_input) e); `Some it'
    | (Res.Err e, it') ->
        if !seen_err then after_err := true;
        seen_err := true; push ("E." ^ Errnames.name e); `Some it'
    | (Res.Panic, _) -> `Stop "panic"
    | (Res.OutOfFuel, _) -> `Stop "outoffuel" in
  let rec go it steps =
    if steps >= cap then `Nonterm
    else match step it with
      | `None it' -> `End it'
      | `Some it' -> go it' (steps + 1)
      | `Stop s -> `Stop s in
  match go it0 0 with
  | `Stop s -> s
  | `Nonterm -> "nonterminating-mismatch " ^ String.concat " " (List.rev !toks)
  | `End it ->
      let after_end = ref false in
      let it = ref it in
      let stop = ref None in
      for _ = 1 to 2 do
        match step !it with
        | `None it' -> it := it'
        | `Some it' -> after_end := true; it := it'
        | `Stop s -> stop := Some s
      done;
      (match !stop with
       | Some s -> s
       | None ->
           let head = if !after_err then "after-error-mismatch" else if !after_end then "after-end-mismatch" else "ok" in
           push "end";
           head ^ " " ^ String.concat " " (List.rev !toks))

let model_info dbg be (sect : Byte0.byte list) (off : Z.t) : string =
  match MacroRd.get_macinfo sect (nz off) with
  | Res.Ok it -> drive dbg be it (List.length sect)
  | Res.Err e -> "err " ^ Errnames.name e
  | Res.Panic -> "panic"
  | Res.OutOfFuel -> "outoffuel"
let model_macro dbg be (sect : Byte0.byte list) (off : Z.t) : string =
  match MacroRd.get_macros be sect (nz off) with
  | Res.Ok it -> drive dbg be it (List.length sect)
  | Res.Err e -> "err " ^ Errnames.name e
  | Res.Panic -> "panic"
  | Res.OutOfFuel -> "outoffuel"

let b01 b = if b then "1" else "0"
let case_info emit be off (l : int list) =
  let sect = bytes_of_ints l in
  both emit (Printf.sprintf "c0101.info %s %s %s" (b01 be) (Z.to_string off) (hex_of_ints l))
    (fun dbg -> model_info dbg be sect off)
let case_macro emit be off (l : int list) =
  let sect = bytes_of_ints l in
  both emit (Printf.sprintf "c0101.macro %s %s %s" (b01 be) (Z.to_string off) (hex_of_ints l))
    (fun dbg -> model_macro dbg be sect off)

(* ------------------------------------------------------------------ hand encoders (ints), with over-long LEBs *)
let rec uleb_min (z : Z.t) : int list =
  let lo = Z.to_int (Z.logand z (Z.of_int 127)) in
  let hi = Z.shift_right z 7 in
  if Z.sign hi = 0 then [lo] else (lo lor 0x80) :: uleb_min hi
(* pad > 0: `pad` extra bytes (continuation bytes 0x80 and a final 0x00) that do not change the value *)
let uleb_ints ?(pad = 0) z =
  let m = uleb_min z in
  if pad = 0 then m else
    let n = List.length m in
    List.mapi (fun i b -> if i = n - 1 then b lor 0x80 else b) m @ List.init (pad - 1) (fun _ -> 0x80) @ [0x00]
let fixed_ints w be (z : Z.t) =
  let l = List.init w (fun i -> Z.to_int (Z.logand (Z.shift_right z (8 * i)) (Z.of_int 255))) in
  if be then List.rev l else l

(* ------------------------------------------------------------------ value generators *)
let gen_u64 r : Z.t =
  match rand_int r 5 with
  | 0 -> Z.of_int (rand_int r 128)
  | 1 -> Z.of_int (pick r [| 0; 1; 127; 128; 129; 16383; 16384; 0xffff; 0x10000 |])
  | _ -> boundary_z64 r
let gen_off r w : Z.t =
  let m = p2 (8 * w) in
  let v = match rand_int r 9 with
    | 0 -> Z.zero | 1 -> Z.one | 2 -> Z.pred m | 3 -> Z.shift_right m 1 | 4 -> Z.pred (Z.shift_right m 1)
    | 5 -> Z.of_int (rand_int r 4096) | 6 -> Z.of_string "0x01020304"
    | _ -> rand_z64 r in
  Z.erem v m
let gen_str r : int list =
  let n = match rand_int r 6 with 0 -> 0 | 1 -> 1 | 2 -> 2 | _ -> rand_int r 8 in
  List.init n (fun _ -> match rand_int r 6 with 0 -> 0xff | 1 -> 0x80 | 2 -> 1 | _ -> 0x20 + rand_int r 0x5f)

(* a well-formed entry for a list of the given kind *)
let gen_entry r ~is_macro ~fmt64 : mentry =
  let w = if fmt64 then 8 else 4 in
  let line () = nz (gen_u64 r) in
  let str () = bytes_of_ints (gen_str r) in
  let off () = nz (gen_off r w) in
  let k = if is_macro then rand_int r 12 else pick r [| 0; 0; 1; 2; 2; 3; 12; 12 |] in
  match k with
  | 0 -> MDefine (line (), MDirect (str ()))
  | 1 -> MUndef (line (), MDirect (str ()))
  | 2 -> MStartFile (line (), line ())
  | 3 -> MEndFile
  | 4 -> MDefine (line (), MStrp (off ()))
  | 5 -> MUndef (line (), MStrp (off ()))
  | 6 -> MImport (off ())
  | 7 -> MDefine (line (), MSup (off ()))
  | 8 -> MUndef (line (), MSup (off ()))
  | 9 -> MImportSup (off ())
  | 10 -> MDefine (line (), MStrx (line ()))
  | 11 -> MUndef (line (), MStrx (line ()))
  | _ -> MVendorExt (line (), str ())

let gen_flags r ~table : int =
  let base = rand_int r 4 in                                    (* offset size, debug_line_offset *)
  let hi = match rand_int r 4 with 0 -> 0xf8 | 1 -> (rand_int r 32) lsl 3 | _ -> 0 in
  base lor hi lor (if table then 4 else 0)
let gen_header r ~table : mheader =
  let flags = gen_flags r ~table in
  let fmt64 = flags land 1 <> 0 in
  let ver = pick r [| 5; 5; 5; 4; 0; 0xffff; 0x0500 |] in
  { mh_version = n_of_int ver; mh_flags = n_of_int flags;
    mh_line_offset = if flags land 2 <> 0 then nz (gen_off r (if fmt64 then 8 else 4)) else n_of_int 0 }

let ints_of_bytes (l : Byte0.byte list) = List.map int_of_byte l

(* prefix before the list/unit and what follows its last entry *)
let gen_prefix r = match rand_int r 3 with 0 -> [] | _ -> rand_bytes r (rand_int r 6)
let gen_tail r = match rand_int r 4 with
  | 0 -> []                                           (* the list ends with the section *)
  | 1 -> [0]
  | _ -> 0 :: rand_bytes r (rand_int r 6)             (* zero terminator, then anything *)

(* ------------------------------------------------------------------ malformed shares *)
let mutate r (l : int list) : int list =
  let n = List.length l in
  if n = 0 then l else
  match rand_int r 6 with
  | 0 -> List.filteri (fun i _ -> i < rand_int r n) l                                   (* truncate *)
  | 1 -> let k = rand_int r n and v = pick r [| 0; 0x80; 0xff; 0x7f; 1; 4; 5; 0x0d |] in
         List.mapi (fun i b -> if i = k then v else b) l
  | 2 -> let k = rand_int r n in List.mapi (fun i b -> if i = k then rand_int r 256 else b) l
  | 3 -> let k = rand_int r n in List.filteri (fun i _ -> i <> k) l                      (* delete *)
  | 4 -> let k = rand_int r n in                                                         (* insert *)
         List.concat (List.mapi (fun i b -> if i = k then [pick r [| 0x80; 0xff; 0; 0x0c; 0xe0 |]; b] else [b]) l)
  | _ -> let k = rand_int r n in                                                         (* splice a copy of a tail *)
         List.filteri (fun i _ -> i < k) l @ List.filteri (fun i _ -> i >= rand_int r n) l

(* a hand-built entry: any type byte, operands possibly over-long / missing *)
let gen_raw_entry r ~is_macro ~fmt64 ~be : int list =
  let w = if fmt64 then 8 else 4 in
  let pad () = match rand_int r 6 with 0 -> 1 + rand_int r 3 | 1 -> 9 | 2 -> 10 | _ -> 0 in
  let u () = uleb_ints ~pad:(pad ()) (gen_u64 r) in
  let s () = gen_str r @ [0] in
  let o () = fixed_ints w be (gen_off r w) in
  let ty = match rand_int r 5 with
    | 0 -> rand_int r 256
    | 1 -> pick r [| 0x0d; 0x0e; 0xdf; 0xe0; 0xfe; 0xff; 0x80; 0x7f |]
    | _ -> 1 + rand_int r 12 in
  let ops = match ty with
    | 1 | 2 | 0xff -> u () @ s ()
    | 3 | 11 | 12 -> u () @ u ()
    | 4 -> []
    | 5 | 6 | 8 | 9 -> u () @ o ()
    | 7 | 10 -> o ()
    | _ -> rand_bytes r (rand_int r 4) in
  ignore is_macro; ty :: ops

let gen_offset r ~plen ~total : Z.t =
  match rand_int r 12 with
  | 0 -> Z.of_int (rand_int r (total + 3))
  | 1 -> pick r [| Z.pred (p2 64); p2 63; p2 32; Z.of_int total; Z.of_int (total + 1) |]
  | _ -> Z.of_int plen

(* one structured random case; `wf_only` = no malformed share (the entries are returned for the spec printer) *)
let gen_case r ~is_macro =
  let be = rand_bool r in
  let table = is_macro && rand_int r 25 = 0 in
  let h = gen_header r ~table in
  let fmt64 = is_macro && MacroSpec.mh_fmt64 h in
  let prefix = gen_prefix r in
  let nent = match rand_int r 8 with 0 -> 0 | 1 -> 1 | _ -> rand_int r 7 in
  let body = List.concat (List.init nent (fun _ ->
    if rand_int r 12 = 0 then gen_raw_entry r ~is_macro ~fmt64 ~be
    else ints_of_bytes (MacroSpec.enc_entry fmt64 be (gen_entry r ~is_macro ~fmt64)))) in
  let hdr = if is_macro then ints_of_bytes (MacroSpec.enc_header be h) else [] in
  let l = prefix @ hdr @ body @ gen_tail r in
  let l = if rand_int r 10 < 3 then mutate r l else l in
  let off = gen_offset r ~plen:(List.length prefix) ~total:(List.length l) in
  (be, off, l)

(* ------------------------------------------------------------------ exhaustive parts *)
let alpha = [| 0x00; 0x01; 0x02; 0x03; 0x04; 0x05; 0x07; 0x0a; 0x0b; 0x0c; 0x0d; 0x41; 0x7f; 0x80; 0xff |]
let iter_strings (alpha : int array) maxlen (k : int list -> unit) =
  let rec go len acc = k (List.rev acc); if len < maxlen then Array.iter (fun a -> go (len + 1) (a :: acc)) alpha in
  go 0 []

(* operand-truncation sweep: every operand-carrying type x format x byte order x LEB shape x every cut point *)
let lebs = [ [0x00]; [0x7f]; [0x80; 0x01]; [0xff; 0xff; 0xff; 0xff; 0xff; 0xff; 0xff; 0xff; 0xff; 0x01];
             [0xff; 0xff; 0xff; 0xff; 0xff; 0xff; 0xff; 0xff; 0xff; 0x02];
             [0x80; 0x80; 0x80; 0x80; 0x80; 0x80; 0x80; 0x80; 0x80; 0x80; 0x00]; [0x80; 0x00] ]
let sweep_operands ~is_macro (k : bool -> bool -> int list -> unit) =
  let fixed w = List.init w (fun i -> 0x11 * (i + 1)) in
  List.iter (fun ty ->
    List.iter (fun fmt64 ->
      List.iter (fun be ->
        List.iter (fun leb ->
          let w = if fmt64 then 8 else 4 in
          let ops = match ty with
            | 1 | 2 | 0xff -> leb @ [0x41; 0x42; 0x00]
            | 3 | 11 | 12 -> leb @ leb
            | 5 | 6 | 8 | 9 -> leb @ fixed w
            | 7 | 10 -> fixed w
            | _ -> [] in
          let full = (ty :: ops) @ [0x04] in
          for cut = 0 to List.length full do
            k fmt64 be (List.filteri (fun i _ -> i < cut) full)
          done) (if ty = 7 || ty = 10 then [ [0] ] else lebs)) [false; true]) (if is_macro then [false; true] else [false]))
    [1; 2; 3; 5; 6; 7; 8; 9; 10; 11; 12; 0xff]

(* ------------------------------------------------------------------ compiler-built .debug_macro sections *)
let read_file p : int list option =
  try
    let ic = open_in_bin p in
    let n = in_channel_length ic in
    let b = really_input_string ic n in
    close_in ic; Some (List.init n (fun i -> Char.code b.[i]))
  with _ -> None
(* (variant, section) for every corpus variant that has a debug_macro section (gcc -g3: GNU v4 extension and DWARF 5) *)
let corpus_macro () : (string * int list) list =
  Array.to_list (S_c01.variants ()) |> List.filter_map (fun v ->
    match read_file (Filename.concat (Filename.concat (S_c01.corpus_dir ()) v) "debug_macro") with
    | Some l when l <> [] -> Some (v, l)
    | _ -> None)
(* offsets of the units of a section, found by walking it with the MODEL: a unit ends after its zero type byte *)
let unit_offsets be (l : int list) : int list =
  let sect = bytes_of_ints l in
  let total = List.length l in
  let rec go off acc =
    if off >= total || List.length acc > 4096 then List.rev acc else
    match MacroRd.get_macros be sect (n_of_int off) with
    | Res.Ok it ->
        let rec run (it : MacroRd.miter) =
          match MacroRd.macro_next true be it with
          | (Res.Ok None, _) -> if it.MacroRd.mi_input = [] then total else total - List.length it.MacroRd.mi_input + 1
          | (Res.Ok (Some _), it') -> run it'
          | _ -> total in
        go (run it) (off :: acc)
    | _ -> List.rev (off :: acc) in
  go 0 []

let flag_set_ex = [ 0; 1; 2; 3; 4; 5; 6; 7; 8; 0xf8; 0xfb; 0xff ]
let header_ints flags =
  [0x05; 0x00; flags] @ (if flags land 2 <> 0 then List.init (if flags land 1 <> 0 then 8 else 4) (fun i -> 0xa0 + i) else [])

let () =
  register "c0101.info"
    ~doc:"DebugMacinfo::get_macinfo + MacroIter to exhaustion (errors ignored): every section of <= 2 bytes, every string of <= 4 bytes over a 15-symbol alphabet, every type byte, operand truncation sweep; then structured lists with boundary LEB values, over-long LEBs, mutations, offsets beyond the section"
    (fun ~seed ~n emit ->
      let z0 = Z.zero in
      case_info emit false z0 [];
      for a = 0 to 255 do case_info emit false z0 [a] done;
      for a = 0 to 255 do for b = 0 to 255 do case_info emit false z0 [a; b] done done;
      iter_strings alpha 4 (fun l -> if List.length l >= 3 then case_info emit false z0 l);
      (* every type byte with operands present *)
      for ty = 0 to 255 do
        case_info emit false z0 [ty; 0x05; 0x41; 0x00; 0x04];
        case_info emit true Z.one [0x01; ty; 0x85; 0x01; 0x00; 0x04; 0x00; 0x04]
      done;
      sweep_operands ~is_macro:false (fun _ be l -> case_info emit be z0 l);
      (* offsets around the end of the section *)
      List.iter (fun off -> case_info emit false off [0x04; 0x04; 0x00])
        [Z.zero; Z.one; Z.of_int 2; Z.of_int 3; Z.of_int 4; p2 32; p2 63; Z.pred (p2 64)];
      let r = mk_rng (seed * 2 + 1) in
      for _ = 1 to n do
        let (be, off, l) = gen_case r ~is_macro:false in
        case_info emit be off l
      done);
  register "c0101.macro"
    ~doc:"DebugMacro::get_macros (v5 unit header) + MacroIter to exhaustion (errors ignored): every section of <= 3 bytes over a 15-symbol alphabet, 12 flag bytes x every body of <= 3 symbols, all 256 flag bytes, every type byte in both formats, operand truncation sweep x format x byte order, every unit of every compiler-built .debug_macro section of the corpus (gcc -g3, GNU v4 and DWARF 5); then structured units (all DW_MACRO kinds, 32/64-bit, debug_line_offset, operands-table flag, unknown flag bits) with boundary LEB/offset values, over-long LEBs, mutations, offsets beyond the section"
    (fun ~seed ~n emit ->
      let z0 = Z.zero in
      iter_strings alpha 3 (fun l -> case_macro emit false z0 l);
      List.iter (fun flags ->
        let h = header_ints flags in
        (* a header with the operands-table flag is rejected whatever follows: short bodies only *)
        iter_strings alpha (if flags land 4 <> 0 then 1 else 3) (fun l -> case_macro emit false z0 (h @ l))) flag_set_ex;
      for flags = 0 to 255 do
        List.iter (fun be ->
          case_macro emit be z0 (header_ints flags @ [0x04; 0x07; 1; 2; 3; 4; 5; 6; 7; 8; 0x00]);
          (* header truncated inside debug_line_offset *)
          case_macro emit be z0 [0x05; 0x00; flags; 0x01; 0x02; 0x03]) [false; true]
      done;
      for ty = 0 to 255 do
        List.iter (fun flags ->
          case_macro emit false z0 (header_ints flags @ [ty; 0x05; 0x41; 0x00; 0x04; 0x00; 0x00; 0x00; 0x00; 0x00; 0x04]);
          case_macro emit true (Z.of_int 2) ([0xee; 0xee] @ header_ints flags @ [0x04; ty; 0x85; 0x01; 0x03; 0x04; 0x05; 0x06; 0x07; 0x08; 0x09; 0x0a; 0x04]))
          [0; 1; 2; 3]
      done;
      sweep_operands ~is_macro:true (fun fmt64 be l ->
        List.iter (fun line -> case_macro emit be z0 (header_ints ((if fmt64 then 1 else 0) lor (if line then 2 else 0)) @ l)) [false; true]);
      List.iter (fun off -> case_macro emit false off [0x05; 0x00; 0x00; 0x04; 0x00])
        [Z.zero; Z.one; Z.of_int 2; Z.of_int 3; Z.of_int 4; Z.of_int 5; Z.of_int 6; p2 32; p2 63; Z.pred (p2 64)];
      (* compiler output: every unit of every corpus .debug_macro section, read from its own offset *)
      let corpus = List.map (fun (v, l) -> (v, l, unit_offsets false l)) (corpus_macro ()) in
      List.iter (fun (_, l, offs) -> List.iter (fun off -> case_macro emit false (Z.of_int off) l) offs) corpus;
      let corpus = Array.of_list corpus in
      let r = mk_rng (seed * 2 + 2) in
      for _ = 1 to n do
        if Array.length corpus > 0 && rand_int r 40 = 0 then begin
          (* a compiler-built section with one or two damaged bytes, from a unit offset or from anywhere *)
          let (_, l, offs) = pick r corpus in
          let len = List.length l in
          let k1 = rand_int r len and k2 = rand_int r len in
          let v1 = pick r [| 0; 0xff; 0x80; 0x0d; 1; 5 |] and two = rand_bool r in
          let l' = List.mapi (fun i b -> if i = k1 then v1 else if two && i = k2 then rand_int r 256 else b) l in
          let off = if rand_int r 4 = 0 then rand_int r (len + 2) else pick r (Array.of_list offs) in
          case_macro emit false (Z.of_int off) l'
        end else begin
          let (be, off, l) = gen_case r ~is_macro:true in
          case_macro emit be off l
        end
      done);
  register "c0101.rt"
    ~doc:"encoder round trip (spec kind): well-formed entry lists of every DW_MACINFO / DW_MACRO kind, 32/64-bit offsets, both byte orders, header flags with debug_line_offset and unknown bits, boundary line/index/offset values, any prefix and any bytes after the terminator; expected = the entry list itself"
    (fun ~seed ~n emit ->
      let r = mk_rng (seed * 2 + 3) in
      let one ~is_macro ~es_of =
        let be = rand_bool r in
        let h = gen_header r ~table:false in
        let fmt64 = is_macro && MacroSpec.mh_fmt64 h in
        let es : mentry list = es_of ~fmt64 in
        let prefix = bytes_of_ints (gen_prefix r) in
        let tail = bytes_of_ints (gen_tail r) in
        let hdr = if is_macro then MacroSpec.enc_header be h else [] in
        let sect = prefix @ hdr @ MacroSpec.enc_entries fmt64 be es @ tail in
        let total = List.length sect in
        (* expected tokens from the entry list: position bookkeeping with the encoder's lengths *)
        let pos = ref (List.length prefix + List.length hdr) in
        let toks = List.map (fun e ->
          let len = List.length (MacroSpec.enc_entry fmt64 be e) in
          pos := !pos + len;
          tok_entry total (total - !pos) e) es in
        let expected = "ok " ^ String.concat " " (toks @ ["end"]) in
        let case = Printf.sprintf "c0101.rt %s %s %d %s" (if is_macro then "m" else "i") (b01 be)
            (List.length prefix) (hex_of_bytes sect) in
        emit case expected expected in
      (* every kind alone and in pairs, deterministic part *)
      let kinds_macro ~fmt64 = List.init 12 (fun k ->
        let w = if fmt64 then 8 else 4 in
        let o = nz (Z.pred (p2 (8 * w))) and l = nz (Z.pred (p2 64)) and s = bytes_of_ints [0x41; 0xff] in
        match k with
        | 0 -> MDefine (l, MDirect s) | 1 -> MUndef (l, MDirect []) | 2 -> MStartFile (l, l) | 3 -> MEndFile
        | 4 -> MDefine (l, MStrp o) | 5 -> MUndef (l, MStrp o) | 6 -> MImport o | 7 -> MDefine (l, MSup o)
        | 8 -> MUndef (l, MSup o) | 9 -> MImportSup o | 10 -> MDefine (l, MStrx l) | _ -> MUndef (l, MStrx l)) in
      for _ = 1 to 8 do
        one ~is_macro:true ~es_of:(fun ~fmt64 -> kinds_macro ~fmt64);
        one ~is_macro:true ~es_of:(fun ~fmt64 -> List.rev (kinds_macro ~fmt64));
        one ~is_macro:false ~es_of:(fun ~fmt64:_ ->
          [ MDefine (nz (p2 63), MDirect (bytes_of_ints [0x80])); MUndef (n_of_int 0, MDirect []); MStartFile (n_of_int 128, n_of_int 16384);
            MEndFile; MVendorExt (nz (Z.pred (p2 64)), bytes_of_ints [1; 2; 3]); MVendorExt (n_of_int 0, []) ])
      done;
      for _ = 1 to n do
        let is_macro = rand_int r 3 <> 0 in
        one ~is_macro ~es_of:(fun ~fmt64 ->
          List.init (match rand_int r 6 with 0 -> 0 | 1 -> 1 | _ -> rand_int r 9) (fun _ -> gen_entry r ~is_macro ~fmt64))
      done)

let init () = ()
