(* s_c04.ml — streams for C04 (line-number programs). Model side: extracted LineSpec / LineRd.
   Every case is `<stream> <be> <address_size> <section bytes>`; the section holds one unit at offset 0. *)
open Conv
open Streams
open LineSpec
open LineRd

(* The driver evaluates every case in every shard and drops the ones of other shards. The model run
   is the expensive part, so cases of other shards are emitted with empty expectations (the driver
   discards them anyway); `idx` mirrors the driver's case counter. *)
let shard, nshards =
  match Array.to_list Sys.argv with
  | _ :: "gen" :: _ :: _ :: _ :: a :: b :: _ -> (try int_of_string a, int_of_string b with _ -> 0, 1)
  | _ -> 0, 1
let idx = ref 0
let mine () = incr idx; Streams.mine ()
let both emit case (f : bool -> string) =
  if mine () then emit case (f true) (f false) else emit case "" ""
let one emit case (f : unit -> string) =
  if mine () then (let e = f () in emit case e e) else emit case "" ""

(* ------------------------------------------------------------------ printing (same format as harness/src/c04.rs) *)
let sn = string_of_n
let sz = string_of_cz
let b01 b = if b then "1" else "0"

let pr_val (v : form_val) = match v with
  | VBlock b -> "B" ^ hex_of_bytes b
  | VData1 n -> "d1:" ^ sn n | VData2 n -> "d2:" ^ sn n | VData4 n -> "d4:" ^ sn n | VData8 n -> "d8:" ^ sn n
  | VUdata n -> "u:" ^ sn n | VSdata z -> "s:" ^ sz z | VFlag b -> "f:" ^ b01 b
  | VSecOffset n -> "so:" ^ sn n | VString s -> "S" ^ hex_of_bytes s
  | VStrRef n -> "sr:" ^ sn n | VStrRefSup n -> "ss:" ^ sn n | VLineStrRef n -> "ls:" ^ sn n
  | VStrOffsetsIndex n -> "sx:" ^ sn n

let pr_file (f : file_entry) =
  String.concat "/" [pr_val f.fe_path; sn f.fe_dir; sn f.fe_time; sn f.fe_size; hex_of_bytes f.fe_md5;
                     (match f.fe_source with Some v -> pr_val v | None -> "none")]

let pr_list f l = if l = [] then "-" else String.concat ";" (List.map f l)
let pr_fmt (e : entry_format) = sn e.ef_ct ^ ":" ^ sn e.ef_form

let pr_header (h : header) =
  String.concat " " [
    sn h.h_version; b01 h.h_fmt64; sn h.h_addr_size; sn h.h_unit_length; sn h.h_header_length;
    sn h.h_min_inst_len; sn h.h_max_ops; b01 h.h_default_is_stmt; sz h.h_line_base; sn h.h_line_range;
    sn h.h_opcode_base; "std=" ^ hex_of_bytes h.h_std_lengths;
    "dfmt=" ^ pr_list pr_fmt h.h_dir_fmt; "dirs=" ^ pr_list pr_val h.h_dirs;
    "ffmt=" ^ pr_list pr_fmt h.h_file_fmt; "files=" ^ pr_list pr_file h.h_files;
    "prog=" ^ string_of_int (List.length h.h_program) ]

let pr_insn (i : insn) = match i with
  | ISpecial op -> "sp:" ^ sn op | ICopy -> "cp" | IAdvancePc n -> "apc:" ^ sn n
  | IAdvanceLine z -> "al:" ^ sz z | ISetFile n -> "sf:" ^ sn n | ISetColumn n -> "sc:" ^ sn n
  | INegateStmt -> "ns" | ISetBasicBlock -> "bb" | IConstAddPc -> "cap" | IFixedAddPc n -> "fap:" ^ sn n
  | ISetPrologueEnd -> "pe" | ISetEpilogueBegin -> "eb" | ISetIsa n -> "isa:" ^ sn n
  | IUnkStd0 op -> "us0:" ^ sn op | IUnkStd1 (op, a) -> "us1:" ^ sn op ^ ":" ^ sn a
  | IUnkStdN (op, a) -> "usn:" ^ sn op ^ ":" ^ hex_of_bytes a
  | IEndSequence -> "es" | ISetAddress a -> "sa:" ^ sn a | IDefineFile f -> "df:" ^ pr_file f
  | ISetDiscriminator n -> "sd:" ^ sn n | IUnkExt (op, a) -> "ue:" ^ sn op ^ ":" ^ hex_of_bytes a

let pr_row (r : row) =
  String.concat "," [sn r.r_addr; sn r.r_opi; sn r.r_file; sn r.r_line; sn r.r_col;
                     b01 r.r_stmt ^ b01 r.r_bb ^ b01 r.r_end ^ b01 r.r_pe ^ b01 r.r_eb; sn r.r_isa; sn r.r_disc]

let pr_srow (r : sregs) =
  String.concat "," [sz r.s_address; sz r.s_op_index; sz r.s_file; sz r.s_line; sz r.s_column;
                     b01 r.s_is_stmt ^ b01 r.s_basic_block ^ b01 r.s_end_sequence ^ b01 r.s_prologue_end
                     ^ b01 r.s_epilogue_begin; sz r.s_isa; sz r.s_discriminator]

let pr_status = function
  | SEnd -> "end" | SErr e -> "err:" ^ Errnames.name e | SPanic -> "panic" | SFuel -> "outoffuel"

(* "ok tok tok ... status", or the bare word panic/outoffuel *)
let finish toks st = match st with
  | SPanic -> "panic" | SFuel -> "outoffuel"
  | _ -> String.concat " " ("ok" :: toks @ [pr_status st])

let with_header dbg be asz bs (k : header -> string) =
  match parse_header dbg be (n_of_int asz) bs with
  | Res.Ok h -> k h
  | Res.Err e -> "err " ^ Errnames.name e
  | Res.Panic -> "panic"
  | Res.OutOfFuel -> "outoffuel"

let exp_hdr dbg be asz bs = with_header dbg be asz bs (fun h -> "ok " ^ pr_header h)
let insn_toks dbg be h = let (is, st) = insns_model dbg be h in (List.map pr_insn is, st)
let exp_insn dbg be asz bs = with_header dbg be asz bs (fun h -> let (t, st) = insn_toks dbg be h in finish t st)
let exp_rows dbg be asz bs = with_header dbg be asz bs (fun h ->
  let (rs, st) = rows_model dbg be h in finish (List.map pr_row rs) st)
let exp_op1 dbg be asz bs = with_header dbg be asz bs (fun h ->
  let (t, st) = insn_toks dbg be h in
  match st with SPanic -> "panic" | SFuel -> "outoffuel" | _ ->
  let (rs, st2) = rows_model dbg be h in
  match st2 with SPanic -> "panic" | SFuel -> "outoffuel" | _ ->
  String.concat " " (("ok" :: t) @ [pr_status st; "|"] @ List.map pr_row rs @ [pr_status st2]))
let exp_cont dbg be asz bs = with_header dbg be asz bs (fun h ->
  let (es, st) = rows_cont dbg be h in
  finish (List.map (function EvRow r -> pr_row r | EvErr e -> "err:" ^ Errnames.name e) es) st)
let exp_seq dbg be asz bs = with_header dbg be asz bs (fun h ->
  match sequences dbg be h with
  | Res.Err e -> "err " ^ Errnames.name e
  | Res.Panic -> "panic" | Res.OutOfFuel -> "outoffuel"
  | Res.Ok (added, ss) ->
      let toks = List.concat_map (fun (s : line_seq) ->
        let (rs, st) = resume_rows dbg be h s in
        ("seq:" ^ sn s.sq_start ^ ":" ^ sn s.sq_end) :: List.map pr_row rs
        @ (match st with SEnd -> [] | st -> [pr_status st])) ss in
      String.concat " " ("ok" :: string_of_int (List.length h.h_files + List.length added) :: toks))

(* ------------------------------------------------------------------ header generator *)
let p2 k = Z.shift_left Z.one k
let mask_z asz = Z.pred (p2 (8 * asz))
let nz z = n_of_z (Z.max Z.zero z)
let ni = n_of_int

let rand_name r =
  let pool = [| "a"; "src"; "/usr/include"; "x.c"; "lib/f.rs"; "\xc3\xa9"; "d" |] in
  if rand_int r 4 = 0 then List.init (1 + rand_int r 5) (fun _ -> 1 + rand_int r 255)
  else let s = pick r pool in List.init (String.length s) (fun i -> Char.code s.[i])

let forms_all = [| 3; 4; 5; 6; 7; 8; 9; 10; 11; 12; 13; 14; 15; 23; 26; 29; 30; 31; 37; 38; 39; 40; 7938; 7969 |]
let small_u r = match rand_int r 5 with 0 -> Z.zero | 1 -> Z.one | 2 -> Z.of_int (rand_int r 300) | _ -> boundary_z64 r
let fit r bits = Z.logand (small_u r) (Z.pred (p2 bits))

let gen_val r fmt64 (form : int) : form_val =
  let bytes k = bytes_of_ints (rand_bytes r k) in
  let word () = nz (fit r (if fmt64 then 64 else 32)) in
  match form with
  | 10 -> VBlock (bytes (pick r [| 0; 1; 16; 16; 17; 40 |]))
  | 3 | 4 | 9 -> VBlock (bytes (pick r [| 0; 3; 16; 16; 15; 33 |]))
  | 30 -> VBlock (bytes 16)
  | 11 -> VData1 (nz (fit r 8)) | 5 -> VData2 (nz (fit r 16)) | 6 -> VData4 (nz (fit r 32)) | 7 -> VData8 (nz (fit r 64))
  | 15 -> VUdata (nz (fit r 64))
  | 13 -> VSdata (let z = fit r 64 in cz_of_z (if Z.numbits z > 63 then Z.sub z (p2 64) else if rand_bool r then Z.neg z else z))
  | 12 -> VFlag (rand_bool r)
  | 23 -> VSecOffset (word ()) | 8 -> VString (bytes_of_ints (rand_name r))
  | 14 -> VStrRef (word ()) | 29 | 7969 -> VStrRefSup (word ()) | 31 -> VLineStrRef (word ())
  | 26 | 7938 -> VStrOffsetsIndex (nz (fit r 64))
  | 37 -> VStrOffsetsIndex (nz (fit r 8)) | 38 -> VStrOffsetsIndex (nz (fit r 16))
  | 39 -> VStrOffsetsIndex (nz (fit r 24)) | _ -> VStrOffsetsIndex (nz (fit r 32))

let ef ct form : entry_format = { ef_ct = ni ct; ef_form = ni form }

(* a format with exactly one path component (valid) *)
let gen_fmt r ~file ~wild : entry_format list =
  let path = ef 1 (pick r [| 8; 8; 31; 31; 14; 26; 37; 15; 10; 7969; 38; 39; 40; 29 |]) in
  let extra () =
    let ct = if file then pick r [| 2; 2; 3; 4; 5; 5; 8193; 6; 8192; (if wild then 70000 else 16383); 0 |] else pick r [| 2; 3; 5; 9; 8193; 0 |] in
    let form = match ct with
      | 2 | 3 | 4 -> pick r [| 15; 11; 5; 6; 7; 13; 8; 12 |]
      | 5 -> pick r [| 30; 30; 10; 9; 7 |]
      | 8193 -> pick r [| 8; 31; 14; 9 |]
      | _ -> pick r forms_all in
    ef ct form in
  let n = if file then rand_int r 5 else rand_int r 3 in
  let before = List.init (rand_int r (n + 1)) (fun _ -> extra ()) in
  let after = List.init (n - List.length before) (fun _ -> extra ()) in
  before @ [path] @ after

type hcfg = { be : bool; asz : int; raw : raw_header }

let gen_raw r ~version ~(wild : bool) : hcfg =
  let be = rand_bool r in
  let fmt64 = rand_int r 4 = 0 in
  let asz = if wild && version <= 4 && rand_int r 12 = 0 then pick r [| 0; 3; 5; 9; 16; 31; 32; 33; 255 |]
            else pick r [| 1; 2; 4; 4; 8; 8; 8 |] in
  let asz5 = pick r [| 1; 2; 4; 8 |] in
  let mil = pick r [| 1; 1; 1; 2; 4; 255; 1 + rand_int r 255 |] in
  let mops = pick r [| 1; 1; 1; 2; 3; 4; 255; 1 + rand_int r 255 |] in
  let lb = pick r [| -5; -3; -1; 0; 1; -128; 127; rand_int r 256 - 128 |] in
  let lr = pick r [| 14; 12; 10; 1; 2; 255; 1 + rand_int r 255 |] in
  let ob = pick r [| 13; 13; 13; 10; 1; 2; 9; 14; 17; 24; 255; 1 + rand_int r 255 |] in
  let std_std = [| 0; 1; 1; 1; 1; 0; 0; 0; 1; 0; 0; 1 |] in
  let std = List.init (ob - 1) (fun i ->
    if i < 12 && rand_int r 8 <> 0 then std_std.(i)
    else pick r [| 0; 0; 1; 1; 2; 3; 2; 5; 255 |]) in
  let ndirs = rand_int r 3 and nfiles = rand_int r 4 in
  let dfmt, dirs, ffmt, files =
    if version <= 4 then
      [], List.init ndirs (fun _ -> [VString (bytes_of_ints (rand_name r))]),
      [], List.init nfiles (fun _ -> [VString (bytes_of_ints (rand_name r)); VUdata (nz (small_u r));
                                      VUdata (nz (small_u r)); VUdata (nz (small_u r))])
    else
      let dfmt = gen_fmt r ~file:false ~wild and ffmt = gen_fmt r ~file:true ~wild in
      let entry fm = List.map (fun (e : entry_format) -> gen_val r fmt64 (int_of_n e.ef_form)) fm in
      dfmt, List.init ndirs (fun _ -> entry dfmt), ffmt, List.init nfiles (fun _ -> entry ffmt) in
  { be; asz = (if version >= 5 then asz5 else asz);
    raw = { rh_fmt64 = fmt64; rh_version = ni version; rh_addr_size = ni asz5;
            rh_min_inst_len = ni mil; rh_max_ops = ni mops; rh_default_is_stmt = rand_bool r;
            rh_line_base = cz_of_int lb; rh_line_range = ni lr; rh_opcode_base = ni ob;
            rh_std_lengths = bytes_of_ints std; rh_dir_fmt = dfmt; rh_dirs = dirs;
            rh_file_fmt = ffmt; rh_files = files } }

let any_version r = pick r [| 2; 3; 4; 4; 5; 5 |]
let hdr_of (c : hcfg) prog : header = header_of_raw c.be (ni c.asz) c.raw prog
let unit_of (c : hcfg) prog = enc_unit c.be c.raw prog
let case name (c : hcfg) bytes = Printf.sprintf "%s %s %d %s" name (b01 c.be) c.asz (hex_of_bytes bytes)

(* ------------------------------------------------------------------ program generators *)

(* candidate instruction for a well-formed program in spec state s *)
let cand_wf r (c : hcfg) (h : header) (s : sregs) : insn =
  let ob = int_of_n c.raw.rh_opcode_base in
  let mask = mask_z (int_of_n h.h_addr_size) in
  let addr = z_of_cz s.s_address and line = z_of_cz s.s_line in
  let mil = Z.of_int (int_of_n h.h_min_inst_len) in
  let room = Z.div (Z.sub mask addr) mil in
  let u () = nz (small_u r) in
  match rand_int r 30 with
  | 0 | 1 | 2 | 3 | 4 | 5 | 6 | 7 -> ISpecial (ni (ob + rand_int r (256 - ob)))
  | 8 | 9 -> ICopy
  | 10 | 11 ->
      let mops = Z.of_int (int_of_n h.h_max_ops) in
      IAdvancePc (nz (match rand_int r 5 with
        | 0 -> Z.zero | 1 -> Z.of_int (rand_int r 100)
        | 2 -> Z.mul room mops                              (* lands on (or just under) the last address *)
        | 3 -> Z.max Z.zero (Z.sub (Z.mul room mops) (Z.of_int (rand_int r 3)))
        | _ -> Z.of_int (rand_int r 70000)))
  | 12 | 13 ->
      IAdvanceLine (cz_of_z (match rand_int r 7 with
        | 0 -> Z.neg line | 1 -> Z.neg (Z.of_int (rand_int r 4)) | 2 -> Z.of_int (rand_int r 1000)
        | 3 -> Z.min (Z.pred (p2 63)) (Z.sub (Z.pred (p2 64)) line)      (* up to u64::MAX / i64::MAX *)
        | 4 -> Z.max (Z.neg (p2 63)) (Z.neg line)
        | 5 -> Z.of_int (rand_int r 7 - 3) | _ -> Z.sub (Z.of_int (rand_int r 100)) (Z.min line (Z.of_int 50))))
  | 14 -> ISetFile (u ()) | 15 -> ISetColumn (u ())
  | 16 -> INegateStmt | 17 -> ISetBasicBlock | 18 -> IConstAddPc
  | 19 -> IFixedAddPc (ni (pick r [| 0; 1; 4; 0xffff; rand_int r 65536 |]))
  | 20 -> ISetPrologueEnd | 21 -> ISetEpilogueBegin | 22 -> ISetIsa (u ())
  | 23 -> ISetDiscriminator (u ())
  | 24 | 25 ->
      ISetAddress (nz (match rand_int r 5 with
        | 0 -> addr | 1 -> Z.add addr (Z.of_int (rand_int r 64))
        | 2 -> Z.sub mask (Z.of_int (2 + rand_int r 4))
        | 3 -> Z.sub mask (Z.of_int 2)
        | _ -> Z.add addr (Z.logand (rand_z64 r) (Z.shift_right mask (1 + rand_int r 8)))))
  | 26 -> IEndSequence
  | 27 ->
      if int_of_n h.h_version <= 4 then
        IDefineFile { fe_path = VString (bytes_of_ints (if rand_int r 6 = 0 then [] else rand_name r));
                      fe_dir = u (); fe_time = u (); fe_size = u ();
                      fe_md5 = bytes_of_ints (List.init 16 (fun _ -> 0)); fe_source = None }
      else IUnkExt (ni 3, bytes_of_ints (rand_bytes r (rand_int r 6)))
  | 28 ->
      let op = pick r [| 0; 5; 6; 0x80; 0xff; 3; 5 + rand_int r 251 |] in
      IUnkExt (ni op, bytes_of_ints (rand_bytes r (pick r [| 0; 1; 2; 7; 130; 300 |])))
  | _ ->
      if ob > 13 then begin
        let op = 13 + rand_int r (ob - 13) in
        let k = int_of_byte (List.nth c.raw.rh_std_lengths (op - 1)) in
        if k = 0 then IUnkStd0 (ni op)
        else if k = 1 then IUnkStd1 (ni op, u ())
        else IUnkStdN (ni op, List.concat (List.init k (fun _ ->
               if rand_int r 6 = 0 then bytes_of_ints [0x80; 0x80; 0x00]      (* non-minimal but valid *)
               else LebSpec.enc_uleb (u ()))))
      end else ICopy

let gen_wf_prog r (c : hcfg) n : insn list =
  let h = hdr_of c [] in
  let s = ref (s_init h) in
  let out = ref [] in
  let push i = if step_wf h !s i then begin out := i :: !out; s := fst (exec_spec h !s i); true end else false in
  if rand_int r 5 <> 0 then ignore (push (ISetAddress (nz (Z.logand (rand_z64 r) (Z.shift_right (mask_z (int_of_n h.h_addr_size)) (1 + rand_int r 20))))));
  for _ = 1 to n do
    let rec attempt k = if k > 0 && not (push (cand_wf r c h !s)) then attempt (k - 1) in
    attempt 4
  done;
  if rand_int r 8 <> 0 then ignore (push IEndSequence);
  List.rev !out

(* wild programs: byte chunks, mostly instruction shaped, operands at and beyond every boundary *)
let uleb_z z = LebSpec.enc_uleb (nz z)
let ext payload = byte_of_int 0 :: (uleb_z (Z.of_int (List.length payload)) @ payload)
let gen_wild_chunk r (c : hcfg) (h : header) : Byte0.byte list =
  let asz = int_of_n h.h_addr_size in
  let ob = int_of_n c.raw.rh_opcode_base in
  let be = c.be in
  let bi = bytes_of_ints in
  let uleb_any () = match rand_int r 8 with
    | 0 -> bi [0x80; 0x80; 0x80; 0x00]                                   (* non-minimal *)
    | 1 -> bi (List.init 9 (fun _ -> 0xff) @ [pick r [| 0x01; 0x02; 0x7f; 0x00 |]])   (* 2^64-1 / overflow *)
    | 2 -> bi (List.init (10 + rand_int r 3) (fun _ -> 0x80) @ [0x00])     (* too long *)
    | 3 -> bi [0x80 lor rand_int r 128]                                    (* unterminated (runs into next chunk) *)
    | _ -> uleb_z (boundary_z64 r) in
  let sleb_any () = match rand_int r 8 with
    | 0 -> enc_sleb (cz_of_z (Z.neg (p2 63)))
    | 1 -> enc_sleb (cz_of_z (Z.pred (p2 63)))
    | 2 -> bi (List.init 9 (fun _ -> 0x80) @ [pick r [| 0x7f; 0x00; 0x01; 0x7e; 0x40 |]])
    | 3 -> enc_sleb (cz_of_int (rand_int r 9 - 4))
    | 4 -> enc_sleb (cz_of_z (Z.neg (boundary_z64 r |> fun z -> Z.logand z (Z.pred (p2 63)))))
    | _ -> enc_sleb (cz_of_z (let z = boundary_z64 r in if Z.numbits z > 63 then Z.sub z (p2 64) else z)) in
  let addr_bytes z = enc_fixed (nat_of_int (max asz 0)) be (nz z) in
  let m = if asz >= 1 && asz <= 8 then mask_z asz else mask_z 8 in
  match rand_int r 36 with
  | 0 | 1 | 2 | 3 | 4 | 5 | 6 -> bi [ob + rand_int r (256 - ob)]
  | 7 | 8 -> bi [1]
  | 9 | 10 | 11 -> byte_of_int 2 :: uleb_any ()
  | 12 | 13 | 14 -> byte_of_int 3 :: sleb_any ()
  | 15 -> byte_of_int (pick r [| 4; 5; 12 |]) :: uleb_any ()
  | 16 -> bi [pick r [| 6; 7; 8; 8; 10; 11 |]]
  | 17 | 18 -> byte_of_int 9 :: enc_fixed (nat_of_int 2) be (ni (pick r [| 0xffff; 0xffff; 0; 1; rand_int r 65536 |]))
  | 19 | 20 | 21 | 22 | 23 ->
      (* set_address: forwards, backwards, tombstones, limits *)
      let a = match rand_int r 9 with
        | 0 -> Z.zero | 1 -> m | 2 -> Z.pred m | 3 -> Z.sub m (Z.of_int 2)
        | 4 -> Z.of_int (rand_int r 0x3000) | 5 -> Z.logand (rand_z64 r) m
        | 6 -> Z.shift_right m 1 | 7 -> Z.of_int 0x1000 | _ -> Z.sub m (Z.of_int (rand_int r 300)) |> Z.max Z.zero in
      let payload = byte_of_int 2 :: addr_bytes a in
      (match rand_int r 10 with
       | 0 -> ext (payload @ bi [0xaa])                 (* length longer than the operand *)
       | 1 -> ext (List.rev (List.tl (List.rev payload)))  (* one byte short *)
       | _ -> ext payload)
  | 24 | 25 -> (match rand_int r 4 with 0 -> ext (bi [1; 0x55; 0x66]) | _ -> ext (bi [1]))
  | 26 -> ext (byte_of_int 4 :: uleb_any ())
  | 27 ->
      let p = bi (rand_name r) in
      let body = byte_of_int 3 :: (p @ (byte_of_int 0 :: (uleb_any () @ uleb_any () @ uleb_any ()))) in
      if rand_int r 4 = 0 then ext (List.filteri (fun i _ -> i < List.length body - 1 - rand_int r 3) body) else ext body
  | 28 ->
      (* unknown extended opcodes: lengths 0, 1, some, more than remains, 2^64-1 *)
      (match rand_int r 6 with
       | 0 -> bi [0; 0]
       | 1 -> ext (bi [pick r [| 0; 5; 0x80; 0xff |]])
       | 2 -> ext (bi (pick r [| 9; 0x42; 0xfe |] :: rand_bytes r (1 + rand_int r 20)))
       | 3 -> byte_of_int 0 :: (uleb_z (Z.of_int (50 + rand_int r 5000)) @ bi [0x80])
       | 4 -> byte_of_int 0 :: (uleb_z (Z.pred (p2 64)) @ bi [5; 1])
       | _ -> byte_of_int 0 :: (uleb_z (boundary_z64 r) @ bi [2; 0; 0; 0; 0]))
  | 29 | 30 ->
      if ob > 13 then begin
        let op = 13 + rand_int r (ob - 13) in
        let k = int_of_byte (List.nth c.raw.rh_std_lengths (op - 1)) in
        let k' = if rand_int r 6 = 0 then max 0 (k - 1) else min k 6 in
        byte_of_int op :: List.concat (List.init k' (fun _ -> uleb_any ()))
      end else bi [rand_int r 13]
  | 31 -> bi (rand_bytes r (1 + rand_int r 4))
  | 32 -> bi [0]
  | _ -> bi [ob + rand_int r (256 - ob)]

let gen_wild_prog r c n = let h = hdr_of c [] in List.concat (List.init n (fun _ -> gen_wild_chunk r c h))

(* uniformly random / biased bytes *)
let gen_noise r n =
  let bias = rand_int r 3 in
  bytes_of_ints (List.init n (fun _ ->
    match bias with
    | 0 -> rand_int r 256
    | 1 -> pick r [| 0; 0; 1; 2; 2; 3; 5; 9; 0xff; 0x80; rand_int r 256; rand_int r 16 |]
    | _ -> if rand_int r 3 = 0 then rand_int r 14 else rand_int r 256))

let gen_any_prog r c =
  match rand_int r 10 with
  | 0 | 1 -> gen_noise r (rand_int r 40)
  | 2 -> enc_prog c.be (hdr_of c []) (gen_wf_prog r c (rand_int r 12)) @ gen_wild_prog r c (rand_int r 4)
  | 3 -> gen_wild_prog r c (rand_int r 6) @ enc_prog c.be (hdr_of c []) (gen_wf_prog r c (rand_int r 12))
  | _ -> gen_wild_prog r c (1 + rand_int r 24)

(* ------------------------------------------------------------------ malformed headers *)
let bi_noise r = bytes_of_ints (rand_bytes r (rand_int r 4))
let set_nth l i v = List.mapi (fun j x -> if j = i then v else x) l
let mutate_unit r (c : hcfg) (bytes : Byte0.byte list) : Byte0.byte list =
  let n = List.length bytes in
  let off0 = if c.raw.rh_fmt64 then 12 else 4 in
  let w = if c.raw.rh_fmt64 then 8 else 4 in
  let v = int_of_n c.raw.rh_version in
  let o_hl = off0 + 2 + (if v >= 5 then 2 else 0) in
  let o_par = o_hl + w in
  let put_word off z = let e = enc_fixed (nat_of_int w) c.be (nz z) in
    List.mapi (fun j x -> if j >= off && j < off + w then List.nth e (j - off) else x) bytes in
  let get_word off =
    let l = List.filteri (fun j _ -> j >= off && j < off + w) bytes |> List.map int_of_byte in
    let l = if c.be then l else List.rev l in
    List.fold_left (fun a b -> Z.add (Z.shift_left a 8) (Z.of_int b)) Z.zero l in
  match rand_int r 14 with
  | 0 -> List.filteri (fun i _ -> i < rand_int r (n + 1)) bytes                    (* truncation *)
  | 1 -> List.filteri (fun i _ -> i < min n (o_par + rand_int r 12)) bytes
  | 2 -> put_word (off0 - w) (Z.add (get_word (off0 - w)) (Z.of_int (rand_int r 9 - 4)))   (* unit_length +- *)
  | 3 -> put_word (off0 - w) (pick r [| Z.zero; Z.one; Z.of_int 2; Z.pred (p2 (8 * w)); Z.of_int 0xfffffff0 |])
  | 4 -> put_word o_hl (Z.max Z.zero (Z.add (get_word o_hl) (Z.of_int (rand_int r 9 - 4))))  (* header_length +- *)
  | 5 -> put_word o_hl (pick r [| Z.zero; Z.one; Z.of_int 5; Z.of_int 6; Z.pred (p2 (8 * w)); Z.of_int n |])
  | 6 -> let ver = pick r [| 0; 1; 6; 0xffff; 0x0500; 0x0400 |] in
         let e = enc_fixed (nat_of_int 2) c.be (ni ver) in
         List.mapi (fun j x -> if j = off0 then List.nth e 0 else if j = off0 + 1 then List.nth e 1 else x) bytes
  | 7 -> set_nth bytes (o_par + rand_int r (if v >= 4 then 6 else 5)) (byte_of_int 0)   (* a zero parameter *)
  | 8 -> if v >= 5 then set_nth bytes (off0 + 2) (byte_of_int (pick r [| 0; 3; 16; 255 |])) else set_nth bytes o_par (byte_of_int 0)
  | 9 -> if v >= 5 then set_nth bytes (off0 + 3) (byte_of_int (1 + rand_int r 255)) else bytes @ bi_noise r
  | 10 -> (* flip one byte somewhere in the tables *)
      let i = o_par + rand_int r (max 1 (n - o_par)) in
      if i < n then set_nth bytes i (byte_of_int (pick r [| 0; 1; 2; 0x7f; 0x80; 0xff; rand_int r 256 |])) else bytes
  | 11 -> (* splice noise into the tables *)
      let i = o_par + 6 + rand_int r (max 1 (n - o_par - 6)) in
      List.filteri (fun j _ -> j < i) bytes @ bytes_of_ints (rand_bytes r (1 + rand_int r 3)) @ List.filteri (fun j _ -> j >= i) bytes
  | 12 -> if rand_bool r then [] else List.filteri (fun i _ -> i < pick r [| 1; 3; 4; 5; 11; 12; 13 |]) bytes
  | _ -> bytes

(* wrap a hand-made header body (everything after header_length) into a unit *)
let wrap_unit (c : hcfg) body prog =
  let w = nat_of_int (if c.raw.rh_fmt64 then 8 else 4) in
  let v = int_of_n c.raw.rh_version in
  let after = enc_fixed (nat_of_int 2) c.be c.raw.rh_version
              @ (if v >= 5 then [byte_of_int (int_of_n c.raw.rh_addr_size); byte_of_int 0] else [])
              @ enc_fixed w c.be (ni (List.length body)) @ body @ prog in
  (if c.raw.rh_fmt64 then enc_fixed (nat_of_int 4) c.be (n_of_string "4294967295") else [])
  @ enc_fixed w c.be (ni (List.length after)) @ after

(* v5 tables that are wrong in a structured way: 0 or 2 path components, unknown forms, entry counts
   beyond the data (incl. ULEB 2^64-1) *)
let gen_bad_v5 r : hcfg * Byte0.byte list =
  let c = gen_raw r ~version:5 ~wild:false in
  let raw = c.raw in
  let k = rand_int r 6 in
  let strip = List.filter (fun (e : entry_format) -> int_of_n e.ef_ct <> 1) in
  let raw = match k with
    | 0 -> { raw with rh_file_fmt = strip raw.rh_file_fmt; rh_files = [] }
    | 1 -> { raw with rh_dir_fmt = raw.rh_dir_fmt @ [ef 1 8]; rh_dirs = [] }
    | 2 -> { raw with rh_file_fmt = raw.rh_file_fmt @ [ef 3 (pick r [| 0; 1; 2; 0x10; 0x11; 0x18; 0x19; 0x21; 0x2c; 65535 |])] }
    | 3 -> { raw with rh_dir_fmt = []; rh_dirs = [] }
    | _ -> raw in
  let c = { c with raw } in
  if k >= 4 then begin
    let params = [byte_of_int (int_of_n raw.rh_min_inst_len); byte_of_int (int_of_n raw.rh_max_ops);
                  byte_of_int 1; byte_of_int 0xfb; byte_of_int (int_of_n raw.rh_line_range);
                  byte_of_int (int_of_n raw.rh_opcode_base)] @ raw.rh_std_lengths in
    let count = if k = 4 then Z.pred (p2 64) else Z.of_int (1 + List.length raw.rh_dirs + rand_int r 3) in
    let body = params @ enc_fmts raw.rh_dir_fmt @ uleb_z count
               @ List.concat_map (enc_entry c.be raw.rh_fmt64 raw.rh_dir_fmt) raw.rh_dirs
               @ enc_fmts raw.rh_file_fmt @ uleb_z (Z.of_int (List.length raw.rh_files))
               @ List.concat_map (enc_entry c.be raw.rh_fmt64 raw.rh_file_fmt) raw.rh_files in
    (c, wrap_unit c body (bytes_of_ints [1]))
  end else (c, unit_of c (bytes_of_ints [1]))

(* ------------------------------------------------------------------ streams *)
(* every case draws from its own generator seeded by (seed, stream salt, index), so a shard only
   generates (and evaluates) its own cases *)
let per_case emit ~seed ~salt ~n (f : rng -> int -> string * (bool -> string)) =
  for i = 1 to n do
    if mine () then begin
      let r = mk_rng ((seed * 1000003 + salt) * 1000003 + i) in
      ignore (next64 r);
      let (case, ex) = f r i in
      emit case (ex true) (ex false)
    end else emit "" "" ""
  done

let () =
  register "c04.hdr" ~doc:"LineProgramHeader::parse: v2-5 x formats x address sizes x endianness, v5 entry formats; mutated/truncated units"
    (fun ~seed ~n emit ->
      per_case emit ~seed ~salt:1 ~n (fun r i ->
        let c, bytes =
          if i mod 16 = 0 then gen_bad_v5 r
          else begin
            let c = gen_raw r ~version:(any_version r) ~wild:true in
            let prog = gen_noise r (rand_int r 6) in
            let b = unit_of c prog in
            let b = if rand_int r 8 = 0 then b @ gen_noise r (1 + rand_int r 5) else b in     (* trailing units *)
            (c, if i mod 3 = 0 then mutate_unit r c b else b)
          end in
        (case "c04.hdr" c bytes, fun dbg -> exp_hdr dbg c.be c.asz bytes)));
  register "c04.hdrspec" ~doc:"well-formed units: the decoded header equals header_of_raw (spec value)"
    (fun ~seed ~n emit ->
      per_case emit ~seed ~salt:2 ~n (fun r _ ->
        let c = gen_raw r ~version:(any_version r) ~wild:false in
        let prog = gen_noise r (rand_int r 6) in
        let bytes = unit_of c prog in
        let tail = if rand_int r 4 = 0 then gen_noise r (1 + rand_int r 5) else [] in
        let e = lazy ("ok " ^ pr_header (hdr_of c prog)) in
        (case "c04.hdr" c (bytes @ tail), fun _ -> Lazy.force e)));
  register "c04.insn" ~doc:"LineInstruction::parse through header.instructions(): structured + wild programs"
    (fun ~seed ~n emit ->
      per_case emit ~seed ~salt:3 ~n (fun r _ ->
        let c = gen_raw r ~version:(any_version r) ~wild:true in
        let bytes = unit_of c (gen_any_prog r c) in
        (case "c04.insn" c bytes, fun dbg -> exp_insn dbg c.be c.asz bytes)));
  register "c04.op1" ~doc:"per sampled header: every opcode byte 0..255 as a one-instruction program (exhaustive), 3 operand tails, after a non-trivial prefix"
    (fun ~seed ~n emit ->
      for k = 1 to n do
        for j = 0 to 767 do
          if mine () then begin
            let r = mk_rng ((seed * 1000003 + 4) * 1000003 + k) in
            ignore (next64 r);
            let c = gen_raw r ~version:(any_version r) ~wild:false in
            let h = hdr_of c [] in
            let asz = int_of_n h.h_addr_size in
            let prefix = if k mod 2 = 0 then [] else
              enc_prog c.be h [ISetAddress (ni 16); IAdvanceLine (cz_of_int 9); ISetFile (ni 3)] in
            let tail = match j / 256 with
              | 0 -> bytes_of_ints [1 + asz; 2; 0x20; 0; 0; 0; 0; 0; 0; 0; 1; 0; 1; 1]
              | 1 -> bytes_of_ints [0x85; 0x01; 0x02; 0x83; 0x00; 0x01; 0x00; 0x01; 0x01]
              | _ -> bytes_of_ints (rand_bytes r 12) in
            let op = j mod 256 in
            let bytes = unit_of c (prefix @ (byte_of_int op :: tail)) in
            emit (case "c04.op1" c bytes) (exp_op1 true c.be c.asz bytes) (exp_op1 false c.be c.asz bytes)
          end else emit "" "" ""
        done
      done);
  register "c04.prog" ~doc:"well-formed programs (spec encoders, state-aware boundary operands): rows = rows_spec"
    (fun ~seed ~n emit ->
      per_case emit ~seed ~salt:5 ~n (fun r _ ->
        let c = gen_raw r ~version:(any_version r) ~wild:false in
        let is = gen_wf_prog r c (rand_int r 40) in
        let h0 = hdr_of c [] in
        let prog = enc_prog c.be h0 is in
        let h = hdr_of c prog in
        let bytes = unit_of c prog in
        let e = lazy (
          if not (prog_wf h is) then "GENERATOR-NOT-WF"
          else begin
            let spec = String.concat " " ("ok" :: List.map pr_srow (rows_spec h is) @ ["end"]) in
            (* development self-check: the model must agree with the spec on well-formed programs *)
            let m = exp_rows true c.be c.asz bytes in
            if m <> spec then "SPEC-MODEL-DIFF " ^ spec ^ " VS " ^ m else spec
          end) in
        (case "c04.prog" c bytes, fun _ -> Lazy.force e)));
  register "c04.any" ~doc:"arbitrary programs: wild instruction chunks with boundary operands, noise, splices; rows + impl-side oracles"
    (fun ~seed ~n emit ->
      per_case emit ~seed ~salt:6 ~n (fun r _ ->
        let c = gen_raw r ~version:(any_version r) ~wild:true in
        let bytes = unit_of c (gen_any_prog r c) in
        (case "c04.any" c bytes, fun dbg -> exp_rows dbg c.be c.asz bytes)));
  register "c04.cont" ~doc:"next_row called again after every Err until Ok(None)"
    (fun ~seed ~n emit ->
      per_case emit ~seed ~salt:7 ~n (fun r _ ->
        let c = gen_raw r ~version:(any_version r) ~wild:true in
        let bytes = unit_of c (gen_any_prog r c) in
        (case "c04.cont" c bytes, fun dbg -> exp_cont dbg c.be c.asz bytes)));
  register "c04.seq" ~doc:"sequences() bounds + resume_from() rows + completed file table"
    (fun ~seed ~n emit ->
      per_case emit ~seed ~salt:8 ~n (fun r i ->
        let c = gen_raw r ~version:(any_version r) ~wild:(i mod 4 = 0) in
        let h0 = hdr_of c [] in
        let prog =
          if i mod 3 = 0 then gen_any_prog r c
          else List.concat (List.init (1 + rand_int r 4) (fun _ -> enc_prog c.be h0 (gen_wf_prog r c (rand_int r 10))))
               @ (if rand_int r 5 = 0 then gen_wild_prog r c 2 else []) in
        let bytes = unit_of c prog in
        (case "c04.seq" c bytes, fun dbg -> exp_seq dbg c.be c.asz bytes)))

let init () = ()
