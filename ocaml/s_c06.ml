(* s_c06.ml — streams for C06 (unwind table rows = DWARF call-frame semantics).
   Model side: extracted CfaSpec (wire encoder) + CfiRun (parse, context, table).
   The generator builds a real .debug_frame section (32-bit DWARF, CIE version 1/3/4, no
   augmentation) with its own small encoder so that the harness goes through the public API:
   DebugFrame::new, set_address_size, set_vendor, entries, partial.parse, fde.rows, next_row.

   case line (streams c06.seq c06.rand c06.lim c06.raw):
     <stream> <storage> <vendor> <be> <asize> <section-hex> <probe-reg>*
   storage: 0 heap StoreOnHeap (4 rows/192 rules), 1 custom (1,1), 2 custom (2,3),
            3 custom inline (4,192), 4 custom (8,256), 5 Vec/Vec (unbounded)
   result : ok <row> | <row> ...      rows until the table ended
            err <Variant> [<row> | ...] rows delivered before the error
            panic
   row    : <start>-<end> R<reg>+<off>|E<off>:<len> a<args_size> r<reg>=<rule> ... (sorted by register) *)
open Conv
open Streams
open CfaSpec
open CfiRun

let sn = string_of_n
let sz = string_of_cz

(* Streams.both evaluates the model (twice) before the driver's shard filter drops the case, so
   every one of the 16 shard processes would evaluate every case. The driver keeps case number i
   in shard (i mod nshards) and numbers cases by emit calls; this wrapper keeps the same count and
   evaluates the model only for the cases this process prints. (`gv-model gen s seed n shard nshards`) *)
let shard_info = lazy (
  match Array.to_list Sys.argv with
  | [_; "gen"; _; _; _; a; b] -> (try (int_of_string a, int_of_string b) with _ -> (0, 1))
  | _ -> (0, 1))
let case_no = ref 0
let sharded emit (mk : unit -> string * (bool -> string)) =
  let (shard, nshards) = Lazy.force shard_info in
  ignore (shard, nshards); (if Streams.mine () then (let (case, f) = mk () in Streams.both emit case f) else emit "" "" "");
  incr case_no
let both emit (case : unit -> string) (f : bool -> string) = sharded emit (fun () -> (case (), f))

let pr_expr (e : uexpr) = sn e.ue_off ^ ":" ^ sn e.ue_len
let pr_rule = function
  | RUndefined -> "u" | RSameValue -> "s"
  | ROffset o -> "o" ^ sz o | RValOffset o -> "v" ^ sz o
  | RRegister r -> "r" ^ sn r
  | RExpression e -> "e" ^ pr_expr e | RValExpression e -> "x" ^ pr_expr e
  | RArchitectural -> "a" | RConstant v -> "c" ^ sn v
let pr_cfa = function
  | CfaRegOff (r, o) -> "R" ^ sn r ^ "+" ^ sz o
  | CfaExpr e -> "E" ^ pr_expr e
let pr_row (r : CfiRun.row) =
  let regs = List.sort (fun (a, _) (b, _) -> Z.compare (z_of_n a) (z_of_n b)) r.r_regs in
  String.concat " "
    ([sn r.r_start ^ "-" ^ sn r.r_end; pr_cfa r.r_cfa; "a" ^ sn r.r_args]
     @ List.map (fun (g, x) -> "r" ^ sn g ^ "=" ^ pr_rule x) regs)
let pr_rows rows = String.concat " | " (List.map pr_row rows)
let pr_result ((rows, o) : CfiRun.row list * outcome) =
  match o with
  | Done -> "ok " ^ pr_rows rows
  | Fail e -> (match rows with [] -> "err " ^ Errnames.name e | _ -> "err " ^ Errnames.name e ^ " " ^ pr_rows rows)
  | Crash -> "panic"
  | Fuel -> "outoffuel"

let pr_insn = function
  | ISetLoc a -> "SetLoc(" ^ sn a ^ ")"
  | IAdvanceLoc d -> "AdvanceLoc(" ^ sn d ^ ")"
  | IDefCfa (r, o) -> "DefCfa(" ^ sn r ^ "," ^ sn o ^ ")"
  | IDefCfaSf (r, o) -> "DefCfaSf(" ^ sn r ^ "," ^ sz o ^ ")"
  | IDefCfaRegister r -> "DefCfaRegister(" ^ sn r ^ ")"
  | IDefCfaOffset o -> "DefCfaOffset(" ^ sn o ^ ")"
  | IDefCfaOffsetSf o -> "DefCfaOffsetSf(" ^ sz o ^ ")"
  | IDefCfaExpression e -> "DefCfaExpression(" ^ pr_expr e ^ ")"
  | IUndefined r -> "Undefined(" ^ sn r ^ ")"
  | ISameValue r -> "SameValue(" ^ sn r ^ ")"
  | IOffset (r, o) -> "Offset(" ^ sn r ^ "," ^ sn o ^ ")"
  | IOffsetExtendedSf (r, o) -> "OffsetExtendedSf(" ^ sn r ^ "," ^ sz o ^ ")"
  | IValOffset (r, o) -> "ValOffset(" ^ sn r ^ "," ^ sn o ^ ")"
  | IValOffsetSf (r, o) -> "ValOffsetSf(" ^ sn r ^ "," ^ sz o ^ ")"
  | IRegister (d, s) -> "Register(" ^ sn d ^ "," ^ sn s ^ ")"
  | IExpression (r, e) -> "Expression(" ^ sn r ^ "," ^ pr_expr e ^ ")"
  | IValExpression (r, e) -> "ValExpression(" ^ sn r ^ "," ^ pr_expr e ^ ")"
  | IRestore r -> "Restore(" ^ sn r ^ ")"
  | IRememberState -> "RememberState"
  | IRestoreState -> "RestoreState"
  | IArgsSize n -> "ArgsSize(" ^ sn n ^ ")"
  | INegateRaState -> "NegateRaState"
  | INop -> "Nop"

let pr_items items =
  let rec go acc = function
    | [] -> ("ok", List.rev acc)
    | It i :: r -> go (pr_insn i :: acc) r
    | Bad e :: _ -> ("err " ^ Errnames.name e, List.rev acc)
    | BadPanic :: _ -> ("panic", [])
    | BadFuel :: _ -> ("outoffuel", []) in
  let (h, l) = go [] items in
  if h = "panic" || h = "outoffuel" then h else String.concat " " (h :: l)

(* ---------------------------------------------------------------- storages *)
let caps_of_storage = function
  | 0 | 3 -> { max_stack = Some (nat_of_int 4); max_rules = Some (nat_of_int 192) }
  | 1 -> { max_stack = Some (nat_of_int 1); max_rules = Some (nat_of_int 1) }
  | 2 -> { max_stack = Some (nat_of_int 2); max_rules = Some (nat_of_int 3) }
  | 4 -> { max_stack = Some (nat_of_int 8); max_rules = Some (nat_of_int 256) }
  | _ -> { max_stack = None; max_rules = None }
let storage_limits = function
  | 0 | 3 -> (4, 192) | 1 -> (1, 1) | 2 -> (2, 3) | 4 -> (8, 256) | _ -> (max_int, max_int)

(* --------------------------------------------------------- section encoder *)
type cfg = { be : bool; ver : int; asize : int; caf : Z.t; daf : Z.t; ra : int;
             init : Z.t; range : Z.t; aarch64 : bool }

let fixed be n (v : Z.t) : int list =
  let l = List.init n (fun i -> Z.to_int (Z.logand (Z.shift_right v (8 * i)) (Z.of_int 255))) in
  if be then List.rev l else l
let uleb (v : Z.t) = List.map int_of_byte (LebSpec.enc_uleb (n_of_z v))
let sleb (v : Z.t) = List.map int_of_byte (CfaSpec.enc_sleb (cz_of_z v))

(* returns (entry bytes, offset of the instructions inside the entry) *)
let build_cie (c : cfg) (insns : int list) =
  let body = fixed c.be 4 (Z.of_string "0xffffffff") @ [c.ver; 0]
             @ (if c.ver = 4 then [c.asize land 255; 0] else [])
             @ uleb c.caf @ sleb c.daf
             @ (if c.ver = 1 then [c.ra land 255] else uleb (Z.of_int c.ra)) in
  let h = List.length body in
  (fixed c.be 4 (Z.of_int (h + List.length insns)) @ body @ insns, 4 + h)
let field_size c = if c.asize > 16 then 16 else c.asize   (* never read when the size is invalid *)
let build_fde (c : cfg) ~(cie_off : int) ~(init : Z.t) ~(range : Z.t) (insns : int list) =
  let body = fixed c.be 4 (Z.of_int cie_off) @ fixed c.be (field_size c) init @ fixed c.be (field_size c) range in
  let h = List.length body in
  (fixed c.be 4 (Z.of_int (h + List.length insns)) @ body @ insns, 4 + h)

let fde_in_of (c : cfg) ~cie_off ~cie ~fde_off ~fde ~init ~range : fde_in =
  { f_caf = n_of_z c.caf; f_daf = cz_of_z c.daf; f_asize = n_of_int (c.asize land 255); f_be = c.be;
    f_aarch64 = c.aarch64; f_init = n_of_z init; f_range = n_of_z range;
    f_cie_off = n_of_int cie_off; f_cie = bytes_of_ints cie;
    f_fde_off = n_of_int fde_off; f_fde = bytes_of_ints fde }

(* one CIE followed by one FDE *)
let build_one (c : cfg) (cie : int list) (fde : int list) =
  (* the address fields hold field_size bytes: reduce the abstract values accordingly *)
  let m = Z.pred (Z.shift_left Z.one (8 * (if c.asize > 16 then 16 else c.asize))) in
  let c = { c with init = Z.logand c.init m; range = Z.logand c.range m } in
  let (cb, co) = build_cie c cie in
  let (fb, fo) = build_fde c ~cie_off:0 ~init:c.init ~range:c.range fde in
  let sect = cb @ fb in
  (sect, fde_in_of c ~cie_off:co ~cie ~fde_off:(List.length cb + fo) ~fde ~init:c.init ~range:c.range)

let enc_wires (c : cfg) (ws : wire list) : int list =
  List.concat_map (fun w -> List.map int_of_byte (enc_wire c.be (n_of_int (c.asize land 255)) w)) ws

let fresh_ctx caps = match new_ctx caps with Ok cx -> Some cx | _ -> None

let model_rows dbg storage (f : fde_in) =
  let caps = caps_of_storage storage in
  match fresh_ctx caps with
  | None -> "panic"
  | Some cx -> pr_result (fst (fde_rows dbg caps f cx))

let b01 b = if b then "1" else "0"

let case_line stream storage (c : cfg) sect probes =
  String.concat " " ([stream; string_of_int storage; b01 c.aarch64; b01 c.be; string_of_int (c.asize land 255);
                      hex_of_ints sect] @ List.map string_of_int probes)

(* registers mentioned by wire forms (for the probe list) *)
let wire_regs = function
  | WOffset0 (r, _) | WRestore0 r | WOffsetExtended (r, _) | WRestoreExtended r | WUndefined r | WSameValue r
  | WDefCfa (r, _) | WDefCfaRegister r | WExpression (r, _) | WOffsetExtendedSf (r, _) | WDefCfaSf (r, _)
  | WValOffset (r, _) | WValOffsetSf (r, _) | WValExpression (r, _) -> [r]
  | WRegister (d, s) -> [d; s]
  | WNegateRaState -> [n_of_int 34]
  | _ -> []
let probes_of (ws : wire list) =
  let l = List.concat_map wire_regs ws |> List.map z_of_n |> List.filter (fun z -> Z.lt z (Z.of_int 65536))
          |> List.map Z.to_int |> List.sort_uniq compare in
  let rec unmentioned k acc n = if n = 0 then acc else
      if List.mem k l then unmentioned (k + 1) acc n else unmentioned (k + 1) (k :: acc) (n - 1) in
  let l = if List.length l > 12 then List.filteri (fun i _ -> i < 12) l else l in
  l @ unmentioned 5 [] 2

let emit_run emit stream storage (c : cfg) (cie_w : wire list) (fde_w : wire list) =
  sharded emit (fun () ->
    let cie = enc_wires c cie_w and fde = enc_wires c fde_w in
    let (sect, f) = build_one c cie fde in
    (case_line stream storage c sect (probes_of (cie_w @ fde_w)), fun dbg -> model_rows dbg storage f))

let emit_raw emit stream storage (c : cfg) (cie : int list) (fde : int list) probes =
  sharded emit (fun () ->
    let (sect, f) = build_one c cie fde in
    (case_line stream storage c sect probes, fun dbg -> model_rows dbg storage f))

(* ------------------------------------------------------------- generators *)
let zi = Z.of_int
let ni = n_of_int
let p2 k = Z.shift_left Z.one k
let base_cfg = { be = false; ver = 4; asize = 8; caf = Z.one; daf = zi (-8); ra = 16;
                 init = zi 0x1000; range = zi 0x100; aarch64 = false }

(* reduced alphabet for the exhaustive enumeration: two registers (1, 2), offsets {0,1,-1},
   remember/restore_state, restore, def_cfa*, advance_loc *)
let alphabet : wire array = [|
  WAdvanceLoc0 (ni 1);
  WOffset0 (ni 1, ni 1);
  WOffset0 (ni 2, ni 0);
  WOffsetExtendedSf (ni 1, cz_of_int (-1));
  WSameValue (ni 2);
  WRestore0 (ni 1);
  WRestore0 (ni 2);
  WRememberState;
  WRestoreState;
  WDefCfa (ni 2, ni 1);
  WDefCfaRegister (ni 1);
  WDefCfaOffsetSf (cz_of_int (-1));
  WDefCfaExpression [];
  WUndefined (ni 1);
|]
let small_alphabet = [| 0; 1; 2; 5; 6; 7; 8; 12 |]

let boundary_i64 r =
  let z = boundary_z64 r in
  if Z.numbits z > 63 then Z.sub z (p2 64) else if rand_bool r then Z.neg z else z

let cafs = [| Z.zero; Z.one; zi 8; zi 2; zi 4; p2 63; Z.pred (p2 64); p2 32 |]
let dafs = [| Z.zero; Z.one; Z.minus_one; zi 8; zi (-8); zi (-4); Z.neg (p2 63); Z.pred (p2 63); zi 2 |]
let some_regs = [| 0; 1; 2; 3; 6; 7; 16; 33; 34; 35; 63; 64; 127; 128; 255; 256; 16383; 16384; 65535 |]

let rand_reg r =
  match rand_int r 20 with
  | 0 -> Z.of_int (65536 + rand_int r 3)                   (* UnsupportedRegister *)
  | 1 -> rand_z64 r
  | 2 | 3 -> zi (rand_int r 65536)
  | _ -> zi (pick r some_regs)
let rand_small_reg r = zi (rand_int r 64)
let rand_block r = List.init (rand_int r 4) (fun _ -> byte_of_int (rand_int r 256))

let rand_cfg r =
  let asize = match rand_int r 24 with
    | 0 -> pick r [| 0; 3; 5; 6; 7; 9; 16; 255 |]
    | _ -> pick r [| 1; 2; 4; 8; 8; 4 |] in
  let bits = if asize >= 1 && asize <= 8 then 8 * asize else 64 in
  let top = p2 bits in
  let init = match rand_int r 6 with
    | 0 -> Z.zero
    | 1 -> Z.sub top (zi (1 + rand_int r 40))              (* close to the top: AddressOverflow *)
    | 2 -> Z.pred top
    | _ -> Z.rem (rand_z64 r) (Z.max Z.one (Z.shift_right top 1)) in
  let range = match rand_int r 6 with
    | 0 -> Z.zero | 1 -> Z.pred top | 2 -> Z.sub top init  (* wraps to 0 *)
    | _ -> zi (rand_int r 5000) in
  { be = rand_bool r; ver = pick r [| 1; 3; 4 |]; asize;
    caf = (if rand_int r 3 = 0 then pick r cafs else pick r [| Z.one; Z.one; zi 4; zi 2 |]);
    daf = (if rand_int r 3 = 0 then pick r dafs else pick r [| zi (-8); zi (-4); zi 8; Z.one |]);
    ra = pick r [| 0; 16; 30; 255 |]; init; range = Z.logand range (Z.pred top);
    aarch64 = rand_int r 3 = 0 }

(* generator-side bookkeeping so that "clean" streams stay valid for long *)
let g_depth = ref 0
let g_cfa_expr = ref false
let g_clean = ref false
let g_in_cie = ref false

(* a random wire form; [loc] tracks an estimate of the current location for set_loc *)
let rec rand_wire r (c : cfg) (loc : Z.t ref) : wire =
  let clean = !g_clean in
  let u () = n_of_z (boundary_z64 r) in
  let s () = cz_of_z (boundary_i64 r) in
  let su () = n_of_z (zi (rand_int r 20)) in
  let ss () = cz_of_int (rand_int r 21 - 10) in
  let uo () = if rand_int r 3 = 0 then u () else su () in
  let so () = if rand_int r 3 = 0 then s () else ss () in
  let g () = if clean then ni (pick r some_regs) else n_of_z (rand_reg r) in
  let bits = if c.asize >= 1 && c.asize <= 8 then 8 * c.asize else 64 in
  let room = Z.sub (Z.pred (p2 bits)) !loc in
  let adv d =
    let delta = Z.logand (Z.mul d c.caf) (Z.pred (p2 64)) in
    if clean && Z.gt delta room then None else (loc := Z.add !loc delta; Some ()) in
  let retry () = rand_wire r c loc in
  match rand_int r 40 with
  | 0 | 1 | 2 -> let d = rand_int r 64 in (match adv (zi d) with Some () -> WAdvanceLoc0 (ni d) | None -> retry ())
  | 3 | 4 -> WOffset0 (n_of_z (rand_small_reg r), uo ())
  | 5 | 6 -> if clean && !g_in_cie then retry () else WRestore0 (n_of_z (rand_small_reg r))
  | 7 -> WNop
  | 8 ->
      let a = match (if clean then 3 + rand_int r 2 else rand_int r 5) with
        | 0 -> Z.pred !loc                                   (* backwards *)
        | 1 -> !loc
        | 2 -> Z.pred (p2 bits)
        | 3 -> !loc
        | _ -> Z.add !loc (zi (rand_int r 300)) in
      let a = Z.logand (Z.max Z.zero a) (Z.pred (p2 bits)) in
      if clean && Z.lt a !loc then retry () else begin
        if Z.geq a !loc then loc := a;
        WSetLoc (n_of_z a) end
  | 9 -> let d = pick r [| 0; 1; 255; 17 |] in (match adv (zi d) with Some () -> WAdvanceLoc1 (ni d) | None -> retry ())
  | 10 -> let d = pick r [| 0; 1; 256; 65535; 300 |] in (match adv (zi d) with Some () -> WAdvanceLoc2 (ni d) | None -> retry ())
  | 11 -> let d = pick r [| Z.zero; Z.one; zi 65536; Z.pred (p2 32); p2 31 |] in
      (match adv d with Some () -> WAdvanceLoc4 (n_of_z d) | None -> retry ())
  | 12 -> WOffsetExtended (g (), uo ())
  | 13 -> if clean && !g_in_cie then retry () else WRestoreExtended (g ())
  | 14 | 15 -> WUndefined (g ())
  | 16 | 17 -> WSameValue (g ())
  | 18 -> WRegister (g (), g ())
  | 19 | 20 | 21 -> incr g_depth; WRememberState
  | 22 | 23 | 24 -> if clean && !g_depth = 0 then retry () else (decr g_depth; WRestoreState)
  | 25 -> g_cfa_expr := false; WDefCfa (g (), uo ())
  | 26 -> if clean && !g_cfa_expr then retry () else WDefCfaRegister (g ())
  | 27 -> if clean && !g_cfa_expr then retry () else WDefCfaOffset (uo ())
  | 28 -> if clean && !g_depth > 0 then retry () else (g_cfa_expr := true; WDefCfaExpression (rand_block r))
  | 29 -> WExpression (g (), rand_block r)
  | 30 -> WOffsetExtendedSf (g (), so ())
  | 31 -> g_cfa_expr := false; WDefCfaSf (g (), so ())
  | 32 -> if clean && !g_cfa_expr then retry () else WDefCfaOffsetSf (so ())
  | 33 -> WValOffset (g (), uo ())
  | 34 -> WValOffsetSf (g (), so ())
  | 35 -> WValExpression (g (), rand_block r)
  | 36 -> WArgsSize (uo ())
  | 37 | 38 -> if clean && not c.aarch64 then retry () else WNegateRaState
  | _ -> if clean then retry () else WRegister (ni 34, g ())   (* makes negate_ra_state hit a non-constant rule *)

let start_stream r ~in_cie ~clean = g_in_cie := in_cie; g_clean := clean; if in_cie then (g_depth := 0; g_cfa_expr := false)
let rand_wires r c loc n = List.init n (fun _ -> rand_wire r c loc)

(* fill [k] distinct registers starting at [first] *)
let fill_regs first k = List.init k (fun i ->
    let g = first + i in
    if g < 64 && i mod 3 = 0 then WOffset0 (ni g, ni (i land 7)) else
    match i mod 4 with
    | 0 -> WSameValue (ni g) | 1 -> WUndefined (ni g) | 2 -> WValOffset (ni g, ni 1) | _ -> WRegister (ni g, ni 0))

let () =
  register "c06.seq"
    ~doc:"EXHAUSTIVE: every instruction sequence of length <= n (quick 4, thorough 5) over a 14-symbol alphabet (two registers, offsets {0,1,-1}, remember/restore_state, restore, def_cfa*, advance_loc), every split into CIE initial instructions + FDE instructions, on heap storage and custom (1,1)/(2,3) storages; for n >= 5 also length n+1 over an 8-symbol sub-alphabet"
    (fun ~seed:_ ~n emit ->
      let c = base_cfg in
      let a = Array.length alphabet in
      (* storages (2,3) and (1,1) can only differ from the heap storage when a row is pushed or a
         third/second register is named: (2,3) is run for every sequence up to length n-1 and, at length n,
         for those containing remember_state (the others stay within 2 rows / 2 rules by construction) *)
      let has_remember ws = List.exists (function WRememberState -> true | _ -> false) ws in
      let run_all (ws : wire list) full =
        let l = List.length ws in
        let small = full || has_remember ws in
        for k = 0 to l do
          let cie = List.filteri (fun i _ -> i < k) ws and fde = List.filteri (fun i _ -> i >= k) ws in
          emit_run emit "c06.seq" 0 c cie fde;
          if small then emit_run emit "c06.seq" 2 c cie fde;
          if full then emit_run emit "c06.seq" 1 c cie fde
        done in
      let rec enum depth acc =
        run_all (List.rev acc) (depth + 1 <= n);
        if depth < n then for i = 0 to a - 1 do enum (depth + 1) (alphabet.(i) :: acc) done in
      enum 0 [];
      (* thorough: one level deeper over the sub-alphabet (only sequences of exactly that length) *)
      if n >= 5 then begin
        let sa = Array.length small_alphabet in
        let rec enum2 depth acc =
          if depth = n + 1 then run_all (List.rev acc) false
          else for i = 0 to sa - 1 do enum2 (depth + 1) (alphabet.(small_alphabet.(i)) :: acc) done in
        enum2 0 []
      end);

  register "c06.rand"
    ~doc:"random long instruction sequences over every DW_CFA wire form with boundary operands; alignment factors {0,1,-1,8,-8,2^63,2^64-1,...}; address sizes 0..9,16,255 (mostly 1,2,4,8); both byte orders; CIE versions 1/3/4; both vendors; every storage"
    (fun ~seed ~n emit ->
      let r = mk_rng seed in
      for _ = 1 to n do
        let c = rand_cfg r in
        let clean = rand_int r 10 < 7 in
        let c = if clean && rand_int r 8 > 0 then { c with asize = pick r [| 1; 2; 4; 8; 8; 4 |] } else c in
        let bits = if c.asize >= 1 && c.asize <= 8 then 8 * c.asize else 64 in
        let c = { c with init = Z.logand c.init (Z.pred (p2 bits)) } in
        let loc = ref Z.zero in
        start_stream r ~in_cie:true ~clean;
        let cie = rand_wires r c loc (match rand_int r 4 with 0 -> 0 | 1 -> 1 | _ -> rand_int r 6) in
        loc := c.init;
        start_stream r ~in_cie:false ~clean;
        let fde = rand_wires r c loc (match rand_int r 8 with 0 -> 0 | 1 -> 40 + rand_int r 60 | _ -> rand_int r 16) in
        let storage = if clean then pick r [| 0; 0; 3; 4; 5; 5; 2 |] else rand_int r 6 in
        emit_run emit "c06.rand" storage c cie fde
      done);

  register "c06.lim"
    ~doc:"storage limits reached exactly and exceeded by one: k in {cap-1,cap,cap+1} distinct register rules (cap = 1,3,192,256) and remember_state depths in the CIE and/or FDE with 0, 1 and many initial rules, on every storage; followed by random tails (restore, overwrite, clear, restore_state)"
    (fun ~seed ~n emit ->
      let r = mk_rng seed in
      let c0 = base_cfg in
      (* deterministic part: every storage x rule counts around its limit x where the rules are set *)
      List.iter (fun st ->
        let (rows, rules) = storage_limits st in
        let rules = if rules = max_int then 300 else rules and rows = if rows = max_int then 12 else rows in
        List.iter (fun k -> if k >= 0 then begin
          emit_run emit "c06.lim" st c0 [] (fill_regs 0 k);
          emit_run emit "c06.lim" st c0 (fill_regs 0 k) [WAdvanceLoc0 (ni 1)];
          emit_run emit "c06.lim" st c0 (fill_regs 0 (k / 2)) (fill_regs (k / 2) (k - k / 2));
          (* overwrite existing at the limit, then clear one by restore and add another *)
          emit_run emit "c06.lim" st c0 [] (fill_regs 0 k @ [WSameValue (ni 0); WRestore0 (ni 1); WUndefined (ni 400)]);
          emit_run emit "c06.lim" st c0 [WSameValue (ni 500)] (fill_regs 0 (max 0 (k - 1)) @ [WUndefined (ni 500); WRestoreExtended (ni 500); WUndefined (ni 501)])
        end) [rules - 1; rules; rules + 1];
        List.iter (fun d -> if d >= 0 then
          List.iter (fun ini ->
            let pushes = List.init d (fun _ -> WRememberState) in
            emit_run emit "c06.lim" st c0 ini (pushes @ [WAdvanceLoc0 (ni 1)] @ List.init d (fun _ -> WRestoreState) @ [WRestoreState]);
            emit_run emit "c06.lim" st c0 (ini @ pushes) [WAdvanceLoc0 (ni 2); WRestoreState; WRememberState; WRememberState];
            emit_run emit "c06.lim" st c0 (ini @ [WRememberState]) (List.init (max 0 (d - 1)) (fun _ -> WRememberState) @ [WOffset0 (ni 9, ni 1); WAdvanceLoc0 (ni 1); WRestoreState; WRestoreState]))
            [[]; [WOffset0 (ni 1, ni 1)]; [WOffset0 (ni 1, ni 1); WSameValue (ni 2)]; [WOffset0 (ni 1, ni 1); WSameValue (ni 2); WUndefined (ni 3)]])
          [rows - 2; rows - 1; rows; rows + 1]) [0; 1; 2; 3; 4; 5];
      for _ = 1 to n do
        let st = rand_int r 6 in
        let (rows, rules) = storage_limits st in
        let rules = if rules = max_int then 260 else rules and rows = if rows = max_int then 10 else rows in
        let c = { (rand_cfg r) with asize = pick r [| 4; 8 |]; ver = pick r [| 1; 3; 4 |] } in
        let c = { c with init = zi 0x1000; range = zi 0x1000; caf = Z.one } in
        let k = max 0 (rules - 2 + rand_int r 4) in
        let kc = if rand_bool r then 0 else rand_int r (k + 1) in
        let d = max 0 (rows - 2 + rand_int r 3) in
        let dc = if rand_bool r then 0 else rand_int r (d + 1) in
        let loc = ref (zi 0x1000) in
        let tail = List.init (rand_int r 8) (fun _ ->
          match rand_int r 8 with
          | 0 -> WRestoreExtended (ni (rand_int r (k + 2)))
          | 1 -> WSameValue (ni (rand_int r (k + 2)))
          | 2 -> WRestoreState
          | 3 -> WRememberState
          | 4 -> WAdvanceLoc0 (ni 1)
          | 5 -> WUndefined (ni (1000 + rand_int r 3))
          | _ -> rand_wire r c loc) in
        let pushes m = List.init m (fun _ -> WRememberState) in
        let cie = fill_regs 0 kc @ pushes dc in
        let fde = (if rand_bool r then fill_regs kc (k - kc) @ pushes (d - dc) else pushes (d - dc) @ fill_regs kc (k - kc)) @ tail in
        emit_run emit "c06.lim" st c cie fde
      done);

  register "c06.raw"
    ~doc:"malformed instruction streams: every opcode byte 0..255 followed by fixed operand tails (both vendors), arbitrary bytes, truncated and bit-flipped valid streams, unterminated and over-long LEB128 operands, expression lengths past the end"
    (fun ~seed ~n emit ->
      let r = mk_rng seed in
      let c0 = base_cfg in
      let probes = [1; 2; 34; 5; 6] in
      List.iter (fun aarch64 ->
        let c = { c0 with aarch64 } in
        for op = 0 to 255 do
          List.iter (fun tail ->
            emit_raw emit "c06.raw" 0 c [] (op :: tail) probes;
            emit_raw emit "c06.raw" 0 c (op :: tail) [0x41] probes)
            [[]; [0x01]; [0x01; 0x02; 0x41]; [0x80]; [0xff; 0xff; 0x03]; [0x81; 0x80; 0x04; 0x7f; 0x41];
             [0x02; 0x00; 0x00; 0x00; 0x00; 0x00; 0x00; 0x00; 0x41]]
        done) [false; true];
      for _ = 1 to n do
        let c = rand_cfg r in
        let c = if rand_int r 4 = 0 then c else { c with asize = pick r [| 1; 2; 4; 8 |] } in
        let loc = ref c.init in
        start_stream r ~in_cie:false ~clean:(rand_bool r);
        let mutate l =
          let a = Array.of_list l in
          let len = Array.length a in
          match rand_int r 5 with
          | 0 when len > 0 -> Array.to_list (Array.sub a 0 (rand_int r len))             (* truncate *)
          | 1 when len > 0 -> let i = rand_int r len in a.(i) <- a.(i) lxor (1 lsl rand_int r 8); Array.to_list a
          | 2 when len > 0 -> let i = rand_int r len in a.(i) <- pick r [| 0x80; 0xff; 0x0f; 0x10; 0x16; 0x2d; 0x2e; 0x1c; 0x3f |]; Array.to_list a
          | 3 -> l @ [pick r [| 0x0f; 0x10; 0x16 |]; 0x01] @ uleb (boundary_z64 r)      (* expression length past the end *)
          | _ -> l @ List.init (1 + rand_int r 11) (fun _ -> 0x80 lor rand_int r 128) @ (if rand_bool r then [rand_int r 128] else []) in
        let gen k = if rand_int r 4 = 0 then rand_bytes r (rand_int r 12) else mutate (enc_wires c (rand_wires r c loc k)) in
        let cie = if rand_bool r then [] else gen (rand_int r 4) in
        let fde = gen (rand_int r 10) in
        emit_raw emit "c06.raw" (rand_int r 6) c cie fde [0; 1; 2; 3; 7; 16; 34; 5; 6]
      done);

  (* decode only: <stream> <vendor> <be> <asize> <section-hex>; result lists the CIE's then the FDE's instructions *)
  register "c06.insn"
    ~doc:"CallFrameInstruction::parse through CallFrameInstructionIter: every wire form with boundary operands, every opcode byte, both vendors; expression offsets are section offsets"
    (fun ~seed ~n emit ->
      let r = mk_rng seed in
      let case (c : cfg) cie fde =
        sharded emit (fun () ->
          let (sect, f) = build_one c cie fde in
          let line = String.concat " " ["c06.insn"; b01 c.aarch64; b01 c.be; string_of_int (c.asize land 255); hex_of_ints sect] in
          (line, fun dbg ->
            if not (valid_asize f.f_asize) then "err UnsupportedAddressSize" else
            let d = f_dparams f in
            pr_items (decode dbg d f.f_cie_off f.f_cie) ^ " ; " ^ pr_items (decode dbg d f.f_fde_off f.f_fde))) in
      List.iter (fun aarch64 -> List.iter (fun asize -> List.iter (fun be ->
        let c = { base_cfg with aarch64; asize; be } in
        for op = 0 to 255 do
          case c [op] [op; 0x05; 0x03; 0x01; 0x02; 0x03; 0x04; 0x05; 0x06; 0x07; 0x08; 0x09];
          case c [op; 0xff; 0x7f; 0x80; 0x01; 0x02; 0xaa; 0xbb] [op; 0x80; 0x80; 0x04; 0x00]
        done) [false; true]) [1; 2; 4; 8]) [false; true];
      for _ = 1 to n do
        let c = rand_cfg r in
        let c = if rand_int r 8 = 0 then c else { c with asize = pick r [| 1; 2; 4; 8 |] } in
        let loc = ref c.init in
        let cie = enc_wires c (rand_wires r c loc (rand_int r 4)) in
        let fde = enc_wires c (rand_wires r c loc (1 + rand_int r 6)) in
        let fde = if rand_int r 4 = 0 then List.filteri (fun i _ -> i < rand_int r (List.length fde + 1)) fde else fde in
        case c cie fde
      done);

  (* <stream> <storage> <vendor> <be> <asize> <section-hex> <address> *)
  register "c06.at"
    ~doc:"FrameDescriptionEntry::unwind_info_for_address at every row boundary -1/0/+1, the FDE's ends and random addresses; the section-level lookup must agree when the FDE contains the address"
    (fun ~seed ~n emit ->
      let r = mk_rng seed in
      for _ = 1 to n do
        let c = { (rand_cfg r) with asize = pick r [| 1; 2; 4; 8 |] } in
        let c = { c with init = Z.logand c.init (Z.pred (p2 (8 * c.asize))) } in
        let clean = rand_int r 10 < 8 in
        let loc = ref Z.zero in
        start_stream r ~in_cie:true ~clean;
        let cie = rand_wires r c loc (rand_int r 4) in
        loc := c.init;
        start_stream r ~in_cie:false ~clean;
        let fde = rand_wires r c loc (rand_int r 12) in
        let storage = if clean then pick r [| 0; 3; 4; 5; 2 |] else rand_int r 6 in
        let built = lazy (
          let (sect, f) = build_one c (enc_wires c cie) (enc_wires c fde) in
          let caps = caps_of_storage storage in
          let rows = match fresh_ctx caps with Some cx -> fst (fst (fde_rows true caps f cx)) | None -> [] in
          let bs = List.concat_map (fun (rw : CfiRun.row) -> [z_of_n rw.r_start; z_of_n rw.r_end]) rows in
          let bs = bs @ [c.init; Z.add c.init c.range] in
          let addrs = List.concat_map (fun a -> [Z.pred a; a; Z.succ a]) bs
            |> List.filter (fun a -> Z.sign a >= 0 && Z.numbits a <= 64) |> List.sort_uniq Z.compare |> Array.of_list in
          (hex_of_ints sect, f, caps, addrs)) in
        let rnd = Array.init 6 (fun _ -> (rand_int r 1000, rand_z64 r)) in
        (* six probe addresses per FDE: five spread over the row boundaries -1/0/+1, one random *)
        Array.iteri (fun j (k, rz) ->
          sharded emit (fun () ->
            let (secthex, f, caps, addrs) = Lazy.force built in
            let a = if j = 5 || Array.length addrs = 0 then rz else addrs.(k mod Array.length addrs) in
            let line = String.concat " " ["c06.at"; string_of_int storage; b01 c.aarch64; b01 c.be; string_of_int c.asize;
                                          secthex; Z.to_string a] in
            (line, fun dbg ->
              match fresh_ctx caps with
              | None -> "panic"
              | Some cx ->
                (match fst (unwind_info_for_address dbg caps f cx (n_of_z a)) with
                 | Res.Ok rw -> "ok " ^ pr_row rw
                 | Res.Err e -> "err " ^ Errnames.name e
                 | Res.Panic -> "panic"
                 | Res.OutOfFuel -> "outoffuel")))) rnd
      done)

let init () = ()
