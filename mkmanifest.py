#!/usr/bin/env python3
"""Generate MANIFEST.json from props.py (single source of truth)."""
import json, os, sys
ROOT = os.path.dirname(os.path.abspath(__file__))
sys.path.insert(0, ROOT)
import props
ALL = ['C%02d' % i for i in range(1, 21)]
checks = []
for pid in ALL:
    if pid not in props.PROPS:
        continue
    P = props.PROPS[pid]
    checks.append({
        'property_id': pid,
        'quick_cmd': './check %s --tier quick' % pid,
        'thorough_cmd': './check %s --tier thorough' % pid,
        'evidence_file': '/verif/evidence/%s.json' % pid,
        'replay_cmd_template': './check %s --replay {path}' % pid,
        'engine': 'coq-model+correspondence',
        'level_claimed': {'category': P.level, 'text': P.level_text, 'design_ref': P.design_ref},
        'level_note': P.level_note,
        'technique': P.technique,
    })
na = [{'property_id': pid, 'reason': props.NOT_CLAIMED.get(pid, 'check not built yet in this session; see DESIGN.md §9 for the plan')}
      for pid in ALL if pid not in props.PROPS]
m = {
    'version': 1,
    'setup_cmd': './setup.sh',
    'hooks': {
        'guard': 'gimli_verif',
        'enable': 'harness/.cargo/config.toml passes --cfg gimli_verif to rustc (no hook is needed today: source_commits is empty)',
        'baseline_off_cmd': 'cd /repo && cargo test --workspace --no-fail-fast --offline',
        'source_commits': [],
        'add_only': True,
    },
    'engines': [{
        'name': 'coq-model+correspondence', 'path': '/verif/check',
        'serves_properties': [c['property_id'] for c in checks],
        'kind_free_text': 'Coq 8.16 theorems over hand-written Gallina models (coq/), extracted to OCaml (gv-model) and run against gimli built from /repo (gv-impl, debug+release) on generated cases; verdict/evidence by ./check',
    }],
    'checks': checks,
    'not_applicable': na,
    'notes': 'Repairs of genuine defects are unguarded fix: commits in /repo, listed in known_findings.txt as fixed:. See DESIGN.md.',
}
json.dump(m, open(os.path.join(ROOT, 'MANIFEST.json'), 'w'), indent=1)
print('wrote MANIFEST.json with', len(checks), 'checks')
