#!/usr/bin/env python3
"""svcollect.py log... — write seeded/<id>-seedN/verified.txt from seedverify queue logs (`=== Cxx seedN` blocks that
have reached their `./check` line); later logs append a further '--- run' block."""
import re, sys, os
for path in sys.argv[1:]:
    cur, buf = None, {}
    for line in open(path, errors='replace'):
        m = re.match(r'=== (C\d\d) seed(\d)', line)
        if m:
            cur = (m.group(1), m.group(2)); buf[cur] = []
            continue
        if line.startswith('=== '):
            cur = None; continue
        if cur: buf[cur].append(line)
    for (pid, s), lines in buf.items():
        if not any(l.startswith('./check') for l in lines):
            continue
        d = 'seeded/%s-seed%s' % (pid, s)
        if not os.path.isdir(d):
            continue
        block = '--- run (%s)\n' % os.path.basename(path) + ''.join(lines)
        p = d + '/verified.txt'
        old = open(p).read() if os.path.exists(p) else ''
        if block not in old:
            open(p, 'a').write(block)
        print(pid, 'seed' + s, 'DETECTED' if any(l.startswith('VIOLATION property=' + pid) for l in lines) else 'not detected')
