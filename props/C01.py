from props import Prop, Stream, reg

reg(Prop('C01', [
    Stream('c01.corpus', 2500, 400000, 'oracle', timeout=900,
           exhaustive='every corpus variant (41 compiler-built section sets: gcc/clang, DWARF 2-5, 32/64-bit, split/dwp/type units/macros/names) unmodified x every entry-point family'),
    Stream('c01.trunc', 12, 100000, 'oracle', timeout=1800,
           exhaustive='thorough: truncation of each of 16 section kinds at EVERY byte for every variant; quick: first 48 bytes + 12 random points'),
    Stream('c01.fault', 6, 200, 'oracle', timeout=900,
           exhaustive='reader failure at operation k for every k in 0..24 x every variant x {dwarf+convert, cfi+convert, misc}'),
    Stream('c01.bytes', 10000, 2000000, 'oracle', timeout=900,
           exhaustive='every byte string of length <= 1 as each of 22 sections; length-2 grid for macinfo/macro/eh_frame_hdr/rnglists/loclists'),
    Stream('c01.index', 300, 20000, 'oracle', timeout=600,
           exhaustive='versions 2/5 x slot counts 1,2,3,4,8,16 x every fill level 0..slot_count (incl. no empty slot) x unit counts'),
    Stream('c01.expr', 3000, 300000, 'oracle', timeout=600,
           exhaustive='typed constants of width 1/2/4/8 x 5 boundary payloads squared x 17 binary + 3 unary ops; generic 64-bit boundary operands x ops x address sizes'),
    Stream('c01.deep', 1, 1000, 'oracle', shards=8, timeout=900,
           exhaustive='fixed family of large inputs (1k/20k/120k): zero aranges tuples, nested DIE chains, long CFI programs'),
    # src/read/macros.rs — Model/MacroRd.v (family prefix c0101 = harness/src/c0101.rs, generators ocaml/s_c01m.ml);
    # the spec-kind stream comes first so that a defect is reported with a concrete failing input before the cap of 10 reports is used up
    Stream('c0101.rt', 10000, 200000, 'spec', timeout=600,
           exhaustive='every DW_MACRO kind with maximal line/index/offset values in one unit (both orders of kinds), every DW_MACINFO kind incl. vendor_ext'),
    Stream('c0101.info', 15000, 400000, 'model', timeout=600,
           exhaustive='.debug_macinfo: every section of <= 2 bytes; every string of <= 4 bytes over a 15-symbol alphabet; every type byte with operands present; every operand-carrying type x 7 LEB shapes x every truncation point; offsets 0..len+1, 2^32, 2^63, 2^64-1'),
    Stream('c0101.macro', 15000, 400000, 'model', timeout=600,
           exhaustive='.debug_macro: every section of <= 3 bytes over a 15-symbol alphabet; 12 flag bytes x every body of <= 3 symbols; all 256 flag bytes x both byte orders; every type byte x 4 header shapes; every operand-carrying type x 32/64-bit x both byte orders x 7 LEB shapes x every truncation point'),
    # the read->write converters are modelled function by function for C12 (ConvertExpr / ConvertLists / ConvertCfi /
    # ConvertLine, each with an explicit Panic outcome per build mode): their model streams run here too, so that a
    # converter that panics where the model does not is reported by C01 with the failing input
    Stream('c12.exprconv', 8000, 200000, 'model', timeout=900),
    Stream('c12.listconv', 5000, 100000, 'model', timeout=900),
    Stream('c12.cficonv', 5000, 100000, 'model', timeout=900),
    Stream('c12.lineconv', 4000, 100000, 'model', timeout=900),
], level='proof', design_ref='§5 C01',
    clauses=['uleb_no_panic', 'sleb_no_panic', 'uleb16_no_panic', 'reader_ops_no_panic',
             'c01_c02_no_panic', 'c01_c03_no_panic', 'c01_c03_line_parse_no_panic', 'c01_c04_no_panic_parse_insn', 'c01_c04_no_panic_rows', 'c01_c04_no_panic_parse_header', 'c01_c05_entries_total', 'c01_c05_fde_parse_total', 'c01_c05_fde_for_address_total', 'c01_c05_hdr_parse_total', 'c01_c05_table_iter_total', 'c01_c05_table_iter_stops_after_error', 'c01_c05_table_nth_total', 'c01_c05_lookup_total', 'c01_c05_hdr_fde_for_address_total', 'c01_c06_no_panic', 'c01_c06_parse_insn_total', 'c01_c07_decode_no_panic', 'c01_c07_operations_terminate', 'c01_c07_eval_no_panic', 'c01_c08_no_panic_raw_ranges', 'c01_c08_no_panic_raw_locations', 'c01_c08_no_panic_tables', 'c01_c08_no_panic_ranges', 'c01_c08_no_panic_locations', 'c01_c08_no_panic_die_ranges_all', 'c01_c08_iter_terminates', 'c01_c08_raw_iter_stops_after_error', 'c01_c17_index_find_terminates', 'c01_c17_index_parse_no_panic', 'c01_c17_index_find_no_panic', 'c01_c17_index_sections_no_panic', 'c01_c17_names_bucket_terminates', 'c01_c17_names_hash_terminates', 'c01_c17_names_headers_no_panic', 'c01_c17_names_index_new_no_panic', 'c01_c17_names_entries_no_panic', 'c01_c17_aranges_no_panic', 'c01_c17_pubstuff_no_panic', 'c01_c18_reader_no_panic', 'c01_c19_worklist_fuel',
             'c01_c01m_macro_no_panic', 'c01_c01m_macro_iter_terminates', 'c01_c01m_macro_section_terminates', 'c01_c01m_macro_stops_after_error', 'c01_c01m_macro_error_is_last', 'c01_c01m_macro_progress', 'c01_c01m_macro_roundtrip', 'c01_c01m_macro_roundtrip_unit', 'c01_c01m_macro_operands_table_unsupported'],
    explored_only=[
        'every unmodelled entry point (names accessors, package index, whole-Dwarf walk, read->write converters): impl-side exploration with the oracle "returns normally within 4*len+64 steps, yields nothing after an error where documented"',
        'real stack depth, allocator behaviour, reads outside the buffer by unsafe code (see C10 for the bounds invariant)',
    ],
    technique='Coq no-panic/termination theorems for the modelled parsers (explicit Panic outcome for every checked operation, both build modes) + exploration of all public entry points on mutated/truncated/fault-injected compiler-built sections',
    level_text='PARTIAL proof: for the modelled decoders the Coq model has an explicit Panic outcome for every overflow-checked operation, index and unwrap, and the theorems state it is never returned for any byte string in either build mode, with structural termination. src/read/macros.rs is modelled too (Model/MacroRd.v: get_macinfo, get_macros with the v5 unit header, MacroIter::next for DW_MACINFO_* and DW_MACRO_*): no Panic and a |section|+1 bound on calls of next() with errors ignored, nothing but Ok(None) after an error, progress of every call and the encoder round trip are theorems (Properties/C01Macro.v), tied by the c0101.* streams. Everything else in "every public entry point" is decided by exploration: the harness walks the whole public reading/lookup/unwind/evaluation/conversion API, ignoring errors, under a linear step cap, on the compiler-built corpus under seeded mutation, truncation at (sampled/every) byte and injected reader failures, in debug and release; panics, aborts, stack overflows, hangs and items yielded after an error are reported with the case line as replay.',
    level_note='Trusted: Coq kernel; hand-written models tied by differential execution; the harness walker (harness/src/c01.rs) decides what "every entry point" covers; corpus built by gcc 12/clang 14 in this sandbox and committed. Stack depth is observed on an 8 MiB main thread only.',
))
