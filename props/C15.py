from props import Prop, Stream, reg

reg(Prop('C15', [
    Stream('c15.expr', 20000, 1500000, 'model', timeout=900,
           exhaustive='every op_* builder alone with boundary operands (0,1,31,32,127,128,2^k+-1, i64 min/max, registers 31/32/65535, '
                      'pick 0/1/2/255, blobs 0..300 bytes) x versions 2-5 x both formats x address sizes 4/8 x both byte orders; '
                      'every opcode 0..255 through Expression::op; every (branch, target) pair over variable-length neighbours incl. '
                      'nested entry_value; i16 displacement boundary in both directions; u16 location-list length boundary; every '
                      'reference kind to every entry before/at/after the holder for every arrangement of 3 children (base types that '
                      'get reordered, deleted entries, a second unit before/after, address sizes 1/2, version 2) in DIE attributes and '
                      'location lists; every CFI instruction kind x section x version 1..5 x address size'),
    Stream('c15.nest', 1, 2, 'model', shards=1, timeout=120,
           exhaustive='entry_value nesting depths 0..600 in versions 4 and 5 (all pass in both builds) and depths beyond the stack (known finding)'),
], level='proof', design_ref='§5 C15',
    clauses=[
        'op_size_write: for every Operation variant, bytes emitted by Operation::write = Operation::size (both build modes, any encoding, any unit-offset table)',
        'expr_size / offsets_exact / size_mono: Expression::size = emitted length incl. nested entry_value and Raw; the offsets vector is the list of real start positions; sizes computed with a partial DIE-offset table equal those with the full table',
        'exprloc_prefix / loc_prefix / cfi_prefix: the ULEB (u16 in .debug_loc) length prefix of the three embeddings reads back as the emitted length',
        'decode_written_one / decode_written: the emitted bytes decode, by an independent opcode->layout table, to exactly the built operations in their documented normal forms (lit/reg/breg short forms, dup/over, DW_OP vs DW_OP_GNU by version, v2 implicit_pointer size, deref sizes, unit offsets of typed references)',
        'branches_land / branch_write_exact: every skip/bra displacement + offset after the 3-byte op = start offset of the target operation (or the end); |disp| >= 2^15 is Err ValueTooLarge, never a wrapped displacement',
        'entry_offset_exact / refs_need_offset / ref_fixup / fixup_resolved: typed ops, call, parameter_ref embed the unit offset and fail with UnsupportedExpressionForwardReference / UnsupportedCfiExpressionReference without it (also for an id beyond the entries vector — reserved, never added — as gimli does since c42c00d; the model was corrected in the wrglue follow-up and the stream generates such ids); call_ref / variable_value / implicit_pointer push one fix-up at the placeholder, which apply_fixups resolves to the target .debug_info offset',
        'table_agrees_with_reader / decode_written_by_reader / branches_land_reader (composition with the C07 reader model OpDec): the independent opcode table and parse_op agree on every opcode and operand string; OperationIter over the written bytes yields the built operations in normal form; OpEval.compute_pc after each written skip/bra returns the suffix starting at the intended operation',
        'eval_layout_independent / eval_same / reader_output_wf (composition with the C07 evaluator model OpEval): the evaluator conversation (requests, pieces, value, counters, errors) depends only on the operation sequence, not on its layout; running it on the written bytes = running it on the canonical StackSpec.enc_op re-encoding with re-aimed branches, whenever that re-encoding exists (re-computed displacements fit i16)',
        'ref_fixups_at_operands / loc_expression_in_entry / loclist_v5_fixups / loclist_v4_fixups (glue with C11/C16, Model/UnitGlueWr.v, stream c11.glue): along a laid-out expression the fix-up of the k-th operation (call_ref / variable_value / implicit_pointer) is at offsets[k]+1 with that operation\'s reference size; loc.rs write_expression inside a list entry at pos with head h appends C16\'s raw bytes (prefix p + d) and lays the operations out from pos+|h|+|p|; a whole DWARF 5 location list = C16 write_list_v5 on the raw view, split into consecutive entries each contributing exactly its fix-ups in order; the same for the DWARF 2-4 list (write_list_v4, have_base_address threaded, every rejection identical). In a DIE attribute: Properties/C11.v exprloc_attr_roundtrip (position = attribute position + prefix length + operand offset) and glue_offsets_exact / glue_ref_is_mark (unit-relative operands = offsets_exact position of the target)',
        'no_panic (+ unset_target_panics): Expression::size / write never panic on Rust-typed operands with existing branch targets and in-table entries, both build modes: no overflow, no index error, the three debug_assert_eq! hold; a target index outside the expression panics',
    ],
    explored_only=[
        'eval_same is relative to the operations the READER sees in the written bytes (normal forms); that these are the operations as built is decode_written; a direct semantics of write::Operation values (without going through bytes) is not modelled',
        'the unit layout around the expression (DIE offsets, abbreviation codes, list headers, CIE/FDE framing) is computed by glue in ocaml/s_c15.ml for small fixed unit shapes and checked by the sharp comparison and by reading everything back with gimli\'s reader '
        '— for stream c15.expr this is unchanged; SINCE wrglue the DIE-attribute and location-list embeddings are ALSO modelled in Coq (Model/UnitGlueWr.v: no OCaml layout arithmetic) and tied by stream c11.glue, with the theorems listed under ref_fixups_at_operands and in Properties/C11.v. Proved since: both list writers and the whole LocationListTable::write (Properties/C16.v loc_table_write_composed). Not proved: positions of the fix-ups ACROSS the lists of a table (per list they are: list_laid), which fix-up list they are appended to, CFI framing',
        'real stack depth of the recursion per entry_value nesting level (known finding, stream c15.nest)',
        'writers with symbol support (relocating writers): the model is the default Writer over EndianVec, where symbols are errors (C18 covers relocation)',
    ],
    technique='Coq theorems over a Gallina model of write::Expression (size/write/builders/fix-ups/embeddings) and an independent decode table + differential correspondence with gimli built from /repo (debug+release): model bytes and table decode vs gimli bytes and gimli reader, plus a semantic oracle inside the harness',
    level_text='Proof: the Coq theorems of Properties/C15.v state, for every operation list constructible through write::Expression, every '
               'encoding, both build modes: predicted size = emitted length (per operation, per expression, nested, with the three length '
               'prefixes); the emitted bytes decode by an independent opcode table to the built operations up to the documented shorter '
               'encodings; every branch lands on the start of its target operation; entry references carry the unit offset of the intended '
               'entry or fail with the specific error, section references are fix-ups resolved to the target offset; size/write cannot panic '
               'under stated input conditions; composed with the C07 reader/evaluator models: the reader decodes the written bytes to the built '
               'operations, compute_pc lands every written branch on its target, and evaluation of the written bytes equals evaluation of '
               'the canonical re-encoding. The model is tied to the Rust on every run by ~42k cases (quick) where the model bytes and the '
               'table decode are compared with gimli\'s bytes and gimli\'s own reader, in a DIE attribute, a location list and a CFI '
               'instruction, and where the harness independently checks built-vs-decoded operations, branch landing, reference resolution '
               '(by reading the units back) and length prefixes.',
    level_note='Trusted: Coq kernel; the hand-written model (tied by differential execution only); OCaml glue that predicts where gimli lays '
               'out the small test units; the Rust harness. usize = u64. eval_same assumes the branch displacements of the canonical re-encoding fit i16. Known finding: '
               'stack exhaustion for deeply nested entry_value (recursion per nesting level).',
))
