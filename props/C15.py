from props import Prop, Stream, reg

reg(Prop('C15', [
    Stream('c15.expr', 20000, 1500000, 'model',
           exhaustive='every op_* builder alone with boundary operands x versions 2-5 x formats x address sizes 4/8 x both endians; '
                      'every opcode through Expression::op; every (branch, target) pair over variable-length neighbours; '
                      'i16 displacement boundary both directions; u16 location-list length boundary; every reference kind to every '
                      'entry before/at/after the holder for every arrangement of 3 children (incl. deleted, base types, second unit '
                      'before/after) in DIE attributes and location lists; every CFI instruction kind x section x version'),
    Stream('c15.nest', 1, 2, 'model', shards=1, timeout=120,
           exhaustive='nesting depths 0..600 (all pass) and one depth beyond the stack (known finding)'),
], clauses=[], design_ref='§5 C15',
    level_text='placeholder',
    level_note='placeholder',
    technique='Coq proof over a Gallina model of write::Expression + differential correspondence with gimli (debug+release)',
))
