from props import Prop, Stream, reg

reg(Prop('C14', [
    Stream('c14.rows', 20000, 600000, 'oracle', exhaustive="gimli's test_frame_instruction list over 4 version/section pairs x address sizes x formats x byte orders x vendors"),
    Stream('c14.factor', 20000, 1000000, 'model', exhaustive='every i8 data factor x offsets -20..20 x Offset/ValOffset/Cfa/CfaOffset + i32 and quotient boundaries; every u8 code factor x deltas 0..66 + u32 boundaries'),
    Stream('c14.advance', 10000, 500000, 'model', exhaustive='every u8 code factor x deltas around 0x3f/0x40, 0xff/0x100, 0xffff/0x10000, 0xffffff on/off alignment, two previous offsets, decreasing and equal offsets'),
    Stream('c14.insn', 10000, 500000, 'model', exhaustive='every CallFrameInstruction variant x 16 register boundaries x 29 i32 boundaries x 9 data factors; blobs of length 0,1,2,127,128,300'),
    Stream('c14.entry', 5000, 300000, 'model', exhaustive='versions 0..5 x sections x formats x address sizes 1,2,3,4,5,8,16 x 0..9 instruction bytes; all 256 DW_EH_PE bytes in personality/LSDA/FDE-address position; return registers 0..300'),
    Stream('c14.table', 20000, 600000, 'model'),
    Stream('c14.ehra', 1, 1, 'oracle'),
    Stream('c14.f_pad64', 1, 1, 'oracle'),
    Stream('c14.f_lsda', 1, 1, 'oracle'),
], clauses=[
    'factoring_exact: factored_data_offset/factored_code_delta return Ok q exactly when the factor is non-zero and q*factor is the offset (no i32 overflow), otherwise InvalidFrameDataOffset/InvalidFrameCodeOffset; never a panic, for every i32/i8 and u32/u8 argument',
    'advance_loc_forms: the four DW_CFA_advance_loc encodings by delta range, each decoding back to the delta, both byte orders; decreasing offsets are InvalidFrameCodeOffset',
    'insn_write_read: every CallFrameInstruction variant decodes (CfaEncSpec) to exactly one instruction with the same meaning under the CIE factors, no trailing bytes; the only error is InvalidFrameDataOffset for an offset that cannot be factored',
    'fde_program_read: the instruction area of an FDE decodes to the supplied instructions at their code offsets',
    'entry_layout (weakened by the DWARF64 padding finding): word_size + length is a multiple of a power-of-two address size, padding is DW_CFA_nop only and shorter than the address size; 4/12 + length is a multiple unless the format is 64-bit and the address size exceeds 4 (refuted there)',
    'cie_dedup: add_cie returns equal ids exactly for structurally equal CIEs; the table is written as each referenced CIE once, immediately before its first FDE, FDEs in insertion order, unreferenced CIEs not at all',
    'no_panic: the writer model panics only for a zero/non-power-of-two address size, for an LSDA/lsda_encoding mismatch in checked builds and (in checked builds) decreasing offsets at add_instruction',
], explored_only=[
    'read-back of whole tables (CIE parameters, FDE ranges, personality/LSDA, evaluated unwind rows) through gimli\'s own reader: oracle stream c14.rows against a reference CFA machine in the OCaml generator',
], design_ref='§5 C14',
    level_text='Coq theorems over a Gallina model of write/cfi.rs: exact factoring, the four advance_loc forms, write/decode identity of every CallFrameInstruction variant under a decoder spec of the emitted opcodes, FDE programs decode to the instructions at their code offsets, entry padding, CIE de-duplication and emission order, panic characterisation in both build modes. The model is tied to gimli by byte-exact differential execution (debug+release) on ~200k cases per quick run; whole-table read-back is checked with gimli\'s own reader against a reference CFA machine.',
    level_note='Two defects of the writer are recorded as known findings (DWARF64 padding, LSDA without lsda_encoding); a third (eh_frame return register >= 128) was repaired in /repo 3c6e5b8. Expressions are opaque raw blobs. Trusted: Coq kernel, hand-written model (tied by differential execution), OCaml/Rust/Python glue.',
    technique='Coq proof over a Gallina model of the CFI writer + decoder spec; differential correspondence (bytes) and reader-based round-trip oracle',
))
