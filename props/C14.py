from props import Prop, Stream, reg

reg(Prop('C14', [
    Stream('c14.rows', 20000, 400000, 'oracle', exhaustive="gimli's test_frame_instruction list over 4 version/section pairs x address sizes x formats x byte orders x vendors"),
    Stream('c14.factor', 20000, 500000, 'model', exhaustive='every i8 data factor x offsets -20..20 x Offset/ValOffset/Cfa/CfaOffset + i32 and quotient boundaries; every u8 code factor x deltas 0..66 + u32 boundaries'),
    Stream('c14.advance', 10000, 300000, 'model', exhaustive='every u8 code factor x deltas around 0x3f/0x40, 0xff/0x100, 0xffff/0x10000, 0xffffff on/off alignment, two previous offsets, decreasing and equal offsets'),
    Stream('c14.insn', 10000, 300000, 'model', exhaustive='every CallFrameInstruction variant x 16 register boundaries x 29 i32 boundaries x 9 data factors; blobs of length 0,1,2,127,128,300'),
    Stream('c14.entry', 5000, 200000, 'model', exhaustive='versions 0..5 x sections x formats x address sizes 1,2,3,4,5,8,16 x 0..9 instruction bytes; all 256 DW_EH_PE bytes in personality/LSDA/FDE-address position; return registers 0..300'),
    Stream('c14.table', 20000, 400000, 'model'),
    Stream('c14.ehra', 1, 1, 'oracle'),
    Stream('c14.pad64', 1, 1, 'oracle'),
    Stream('c14.lsda', 1, 1, 'oracle'),
    Stream('c14.asz', 1, 1, 'oracle', exhaustive='address sizes 0..9, every multiple of 8, 255; both sections; absptr and pcrel|sdata4 FDE encodings'),
], clauses=[
    'factoring_exact / factoring_exact_code: factored_data_offset and factored_code_delta return Ok q exactly when the factor is non-zero and q*factor is the offset (q an i32), otherwise InvalidFrameDataOffset / InvalidFrameCodeOffset; never a panic, for every i32/i8 and u32/u8 argument incl. factor 0 and (i32::MIN, -1); decreasing offsets are InvalidFrameCodeOffset',
    'advance_loc_forms / advance_loc_encodings: nothing for an unchanged offset, otherwise exactly the spec encoding of the factored delta: the four DW_CFA_advance_loc forms by range (0x40, 0x100, 0x10000), each decoding back to the delta in both byte orders',
    'insn_write_read: every CallFrameInstruction variant decodes (CfaEncSpec) to exactly one instruction with the same meaning under the CIE factors, following bytes untouched; the only failure is InvalidFrameDataOffset, exactly when the operand to be factored is not an i32 multiple of a non-zero factor; never a panic',
    'fde_program_read / cie_program_read: the instruction area of an FDE decodes to the supplied instructions at their code offsets, that of a CIE to the initial instructions',
    'entry_layout_cie / entry_layout_fde: an entry is written only for address size 1/2/4/8; in both formats |entry| = (4 or 12) + length is a multiple of the address size; the length field holds the size of the rest; the area after the header is the instructions followed by fewer than address_size DW_CFA_nop',
    'cie_eqb_eq / cie_dedup_ids / cie_dedup_emission / plan_spec: add_cie returns equal ids exactly for equal CIEs; the table is written as tiles in plan order: each referenced CIE once, immediately before its first FDE, FDEs in insertion order, unreferenced CIEs not at all; each FDE tile carries the offset of its CIE tile',
    'pointer_read_back / cie_header_read / fde_header_read / table_roundtrip: against the header-parser spec (CIE id, version, augmentation string and z-data L/P/R/S, address size, factors, return register; FDE CIE pointer, pointer-encoded address/range, LSDA; absptr and pcrel applications of all nine formats) every written CIE parses to its parameters, every FDE to the offset of its CIE, its range and LSDA, and the instruction areas decode to the supplied programs',
    'no_panic_write / unsupported_address_size_is_error / lsda_mismatch_is_error / no_panic_build: the table writer does not panic on any well-typed table with valid CIE ids, for every u8 address size; an address size other than 1/2/4/8 is UnsupportedWordSize (nothing written); an FDE whose LSDA presence disagrees with its CIE is InvalidAddress, never written, never a panic; building panics only in a checked build on decreasing offsets (debug_assert in add_instruction)',
], explored_only=[
    'the evaluated unwind rows themselves and agreement of the header-parser spec with gimli\'s own reader: oracle stream c14.rows (gimli\'s DebugFrame/EhFrame entries + UnwindTable rows over gimli\'s bytes against CIE parameters, FDE ranges, personality/LSDA and rows computed by a reference CFA machine in the OCaml generator)',
], design_ref='§5 C14',
    level_text='Coq theorems over a Gallina model of write/cfi.rs: exact factoring, the four advance_loc forms, write/decode identity of every CallFrameInstruction variant under a decoder spec of the emitted opcodes, FDE programs decode to the instructions at their code offsets, entry padding, CIE de-duplication and emission order, read-back of every CIE/FDE header field (all pointer encodings) and of the whole table against a header-parser spec, panic characterisation in both build modes. The model is tied to gimli by byte-exact differential execution (debug+release) on ~200k cases per quick run; whole-table read-back is checked with gimli\'s own reader against a reference CFA machine.',
    level_note='Four defects of the writer found here were repaired in /repo and are regression streams: eh_frame return register (3c6e5b8), DWARF64 padding (d2e46aa), LSDA mismatch (a8af08f), unsupported address sizes incl. the 0 runaway loop (768c9da). Expressions are opaque raw blobs. Trusted: Coq kernel, hand-written model (tied by differential execution), OCaml/Rust/Python glue.',
    technique='Coq proof over a Gallina model of the CFI writer + decoder spec; differential correspondence (bytes) and reader-based round-trip oracle',
))
