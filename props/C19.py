from props import Prop, Stream, reg

reg(Prop('C19', [
    Stream('c19.closure', 25000, 600000, 'spec',
           exhaustive='every 3-entry forest shape x {variable,structure_type,namespace,subprogram}^3 x every required subset; every single reference a->b between 3 entries (attribute UnitRef/DebugInfoRef, DW_OP_call4, live location list) x every shape x every subset; every random forest of <= 10 entries is run with all 2^n required subsets'),
    Stream('c19.sites', 12000, 300000, 'spec',
           exhaustive='required DIE -> otherwise unreachable DIE through every reference carrier (exprloc / live, empty, inverted, tombstoned location-list entry) x every reference-carrying operation x nesting 0/1 in DW_OP_entry_value x 4 encodings'),
    Stream('c19.tags', 5000, 200000, 'spec',
           exhaustive='every DW_TAG 0x01..0x50 and every vendor tag of constants.rs as child x 4 parent tags x DW_AT_declaration x which DIE is required'),
    Stream('c19.big', 5000, 60000, 'spec'),
    Stream('c19.oob', 12000, 200000, 'spec',
           exhaustive='a required DIE of unit 0 -> each DIE of unit 1 through an out-of-bounds unit-relative reference (DW_FORM_ref4/8 attribute, DW_OP_call4, DW_OP_GNU_parameter_ref; exprloc, DW_OP_entry_value nesting 0/1, live/empty/inverted/tombstoned location-list entry) x 3 tag pairs x 2 shapes x every required subset x 5 encodings'),
], clauses=[
    'worklist_correct: FilterDependencies::get_reachable returns exactly the strictly sorted enumeration of the nodes reachable from the required set (all dependency maps, all required lists; never out of fuel with fuel = #nodes + #edges + 2)',
    'closure: for every well-formed forest and every required predicate the reserved set is the LEAST set containing the required DIEs and closed under parent, under the references the filter records, and under member-like children of retained non-namespace parents (children of the unit root get no parent edge)',
    'edges_complete / edges_sound: for EVERY carrier (attribute references, every reference-carrying operation at any DW_OP_entry_value nesting depth, in an exprloc or in any raw location-list entry incl. those LocListIter skips) the filter records every reference the converter resolves, and nothing else',
    'no_dangling: whenever the unfiltered conversion succeeds the filtered conversion succeeds (never InvalidUnitRef/InvalidDebugInfoRef for an unreserved DIE) and emits exactly the reserved DIEs; policy_agrees: the reserved set is the closure over exactly the references the converter resolves',
    'per_unit_slices: reserve_unit receives for each unit exactly the reachable offsets lying in that unit',
    'tolerant_emits_reserved: with the error-tolerant attribute-by-attribute loop (failing attributes skipped) the DIEs emitted are exactly the reserved set for EVERY forest, whatever its reference sites hold (out-of-bounds unit-relative offsets that coincide with a DIE of another unit, non-DIE offsets, dangling .debug_info offsets): a malformed reference neither adds nor removes a DIE',
    'parents_kept: every retained DIE is attached to its own parent (or the unit root)',
], explored_only=[
    'same attributes as the unfiltered conversion (attrs-mismatch oracle of the harness on every case)',
    'writing the filtered result never fails / no dangling reference in the written bytes (write-mismatch, dangling-mismatch oracles)',
    'split-unit filters (FilterUnitSection::new_split) are not exercised',
], design_ref='§5 C19, §8 S9',
    level_text='Coq theorems over a Gallina model of FilterDependencies / FilterUnit::read_entry / ConvertUnitSection::new_with_filter / ConvertUnit::read_entry: the worklist equals graph reachability, the reserved set is the least parent/reference/member-closed set, per-unit slicing is exact, covered references never dangle. The model is tied to gimli on ~30k generated forests per quick run (exhaustive small forests x all required subsets), identities, parents, attributes and references of the written output being checked on the implementation itself.',
    level_note='The defect found here (references carried by DW_OP_implicit_pointer, DW_OP_GNU_variable_value, operations inside DW_OP_entry_value and location-list entries skipped by LocListIter were converted but not recorded by the filter) is repaired in /repo 8f64179; the model mirrors the repaired code and mutants/C19/m9_revert_filter_refs_fix.diff re-introduces it. Trusted: Coq kernel, hand-written model tied by differential execution, OCaml/Rust/Python glue.',
    technique='Coq proof (worklist = inductive reachability, least closed set, slicing) over a Gallina model + differential correspondence with gimli on generated DWARF forests built with gimli::write (debug+release)',
))
