from props import Prop, Stream, reg

reg(Prop('C04', [
    # spec-kind streams first: a difference there is a concrete failing input (reported before model-only diffs)
    Stream('c04.prog', 8000, 150000, 'spec'),
    Stream('c04.hdrspec', 3000, 50000, 'spec'),
    Stream('c04.hdr', 4000, 80000, 'model'),
    Stream('c04.insn', 4000, 80000, 'model'),
    Stream('c04.op1', 16, 300, 'model', exhaustive='per sampled header (16 quick / 300 thorough, full parameter grid): all 256 opcode bytes x 3 operand tails as one-instruction programs'),
    Stream('c04.any', 10000, 200000, 'model'),
    Stream('c04.cont', 3000, 50000, 'model'),
    Stream('c04.seq', 4000, 80000, 'model'),
], level='proof',
    clauses=[
        'monotone_any_input, monotone_any_unit: FULL statement, no exclusion - for ALL program bytes and all decoded headers, both build modes, returned row addresses never decrease inside a sequence (rows up to an end_sequence row) and never exceed the address size (model mirrors the code after fix 9872ff0; the former refutation witness is now the Example repaired_witness_rows)',
        'no_panic_parse_insn / no_panic_execute / no_panic_rows / no_panic_parse_header: no panic and fuel suffices for LineInstruction::parse (no hypothesis), execute, next_row, rows(), a caller continuing after errors, sequences(), and LineProgramHeader::parse (every byte string, v2-5)',
        'insn_roundtrip: parse_insn (enc_insn i ++ rest) = (i, rest) for every well-formed instruction incl. opcode_base <> 13, unknown standard (0/1/n operands) and extended opcodes, both byte orders',
        'special_opcode_arith, operation_advance_vliw, execute_refines_spec: the u8 / Wrapping<u64> arithmetic of the model equals the DWARF formulas (adj, line_base + adj mod range, adj / range, VLIW address/op_index update)',
        'rows_refine_spec: for every well-formed program (prog_wf) rows() over its encoding = rows_spec of the DWARF state machine over Z, run to completion, no tombstones',
        'sequences_eq_rows: whenever sequences() is Ok, rows() = concatenation of resume_from(s) rows over the sequences + trailing rows without end_sequence; each resumed run ends normally, is body ++ [end row], start = first body address (0 if none), end = end row address; file table = the straight run\'s; sequence_bounds_ordered: with a decoded header start <= end <= mask and every resumed sequence is monotone',
        'header_roundtrip_v2_v4, header_roundtrip_v5, entry_component_roundtrip: LineProgramHeader::parse (enc_unit r prog ++ tail) = header_of_raw r prog for versions 2-5 (v5: any entry formats with one path component, all 24 forms, MD5, LLVM source), both formats/byte orders',
    ],
    explored_only=[
        'malformed headers (truncations, zero parameters, 0 or 2 path components, unknown forms, huge counts): exact error variant by correspondence (c04.hdr) only; content type codes above 0xffff (gimli clamps them to 0xffff)',
        'non-minimal LEB128 operands of unknown standard opcodes; caller-supplied address sizes outside 1..8 for versions 2-4 (model mirrors the u8 shift overflow; correspondence only)',
        'corpus vs llvm-dwarfdump --debug-line not built',
    ],
    design_ref='§5 C04',
    level_text=('Coq theorems over a Gallina mirror of src/read/line.rs: for every byte string as program and every decoded header, '
                'in debug and release arithmetic, decoding/executing never panics and returned row addresses are monotone within a '
                'sequence and bounded by the address size (full statement; the defect found on the way, a tombstoned end_sequence row '
                'being dropped, is repaired in 9872ff0 and modelled as repaired); instruction and v2-5 header codecs round-trip; for '
                'every well-formed program the rows are exactly those of the DWARF state machine written over unbounded integers '
                '(special opcodes, VLIW op_index, unknown opcodes, non-standard opcode_base); sequences()+resume_from() = rows() with '
                'exact bounds. The model is tied to gimli by ~48k cases per quick run in debug and release (every opcode byte per '
                'sampled header, boundary operands, arbitrary bytes) with impl-side oracles for monotonicity, bounds and resume.'),
    level_note=('Trusted: Coq kernel, the hand-written model (tied by differential execution only), Spec/LineSpec.v as the meaning of '
                'DWARF 5 6.2, OCaml/Rust/Python glue. usize = u64.'),
    technique='Coq proof over a Gallina model of read/line.rs (invariant by induction over the instruction stream, refinement to a Z-valued DWARF state machine, decoder locality) + differential correspondence with gimli (debug+release) and impl-side oracles',
))
