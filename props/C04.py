from props import Prop, Stream, reg

reg(Prop('C04', [
    Stream('c04.hdrspec', 4000, 100000, 'spec'),
    Stream('c04.hdr', 6000, 150000, 'model'),
    Stream('c04.insn', 6000, 150000, 'model'),
    Stream('c04.op1', 24, 600, 'model', exhaustive='per sampled header: all 256 opcode bytes x 3 operand tails'),
    Stream('c04.prog', 10000, 250000, 'spec'),
    Stream('c04.any', 12000, 400000, 'model'),
    Stream('c04.cont', 4000, 100000, 'model'),
    Stream('c04.seq', 6000, 150000, 'model'),
], clauses=[], design_ref='§5 C04',
    level_text='placeholder',
    level_note='',
    technique='Coq proof over a Gallina model of read/line.rs + differential correspondence with gimli (debug+release)',
))
