from props import Prop, Stream, reg

# Streams are grouped by clause of the property; owners of the other clauses append their lists.
UNWIND_CONTEXT = [
    Stream('c20.hist', 3, 4, 'oracle', timeout=3000,
           exhaustive='EVERY history of length <= 3 (thorough 4) over a pool of 12 FDEs (nothing-at-all, 0/1/many initial rules, failing in the CIE initial instructions, mid-FDE, by StackFull in the FDE and in save_initial_rules, by TooManyRegisterRules, decode error in the CIE, set_loc backwards, CIE leaving pushed rows) x storages heap,(2,3),(8,256),Vec, each also with every table abandoned after one row; evaluated on ONE reused UnwindContext and on fresh ones; + random histories of length 2..11 with partial iteration and address lookups on all six storages'),
    Stream('c20.histm', 2, 3, 'model', timeout=3000,
           exhaustive='every history of length <= 2 (thorough 3) over the same pool; results on the reused context predicted by the model (CfiRun.run_history)'),
]
ENTRY_BUFFERS = [Stream('c20.buf', 400, 40000, 'oracle', timeout=900, exhaustive='every corpus variant unmodified and with 1 / 4 damaged bytes')]
TREE_REROOT = [Stream('c20.tree', 300, 30000, 'oracle', timeout=900, exhaustive='every corpus variant unmodified and with 1 / 4 damaged bytes')]
ITERATOR_CLONES = [Stream('c20.clone', 200, 20000, 'oracle', timeout=900, exhaustive='every corpus variant; clones at random positions of EntriesCursor, LineRows, OperationIter, CfiEntriesIter')]
# model-kind streams for Model/EntryBuf.v: generated units (C02 spec encoder, 40% damaged) x operation histories
ENTRYBUF_MODEL = [
    Stream('c20.bufm', 6000, 120000, 'model', timeout=1500),
    Stream('c20.curm', 5000, 100000, 'model', timeout=1500),
    Stream('c20.treem', 5000, 100000, 'model', timeout=1500),
    Stream('c20.linem', 5000, 100000, 'model', timeout=1500),
    # resumed iteration (LineProgram::sequences + resume_from) against the one-shot rows: C04's generators and
    # `resume-mismatch` oracle, run here because resumption is a C20 clause
    Stream('c04.seq', 2000, 40000, 'model'),
    Stream('c04.any', 4000, 80000, 'model'),
]
ABBREV_CACHE = [Stream('c20.cache', 400, 40000, 'oracle', timeout=900, exhaustive='every corpus variant x strategies none/Duplicates/All (populated once and twice), abbreviation offsets shared / damaged / invalid')]

reg(Prop('C20', UNWIND_CONTEXT + ENTRY_BUFFERS + TREE_REROOT + ITERATOR_CLONES + ABBREV_CACHE + ENTRYBUF_MODEL,
    level='proof', design_ref='§5 C20',
    clauses=[
        'buf_history_independent, buf_equals_fresh, read_ok_overwrites_buffer (Model/EntryBuf.v threads the caller\'s DebuggingInformationEntry through EntriesRaw::read_entry as unit.rs does): for ANY prior buffer contents and ANY history of reads / skips / re-opens, failed ones included, every result, every entry delivered by a successful read and every reader position equal those obtained with a fresh null buffer per read; read_entry_buf_is_read_entry ties the buffer version to the pure C02 model',
        'reroot_is_fresh: a history of root()+partial walks (abandoned after any number of entries, skipping any subtrees, failing) on ONE EntriesTree in any state equals each walk on a fresh tree; cursor_cache_irrelevant: next_entry/next_dfs do not depend on the cached entry',
        'clone_independent (+ cursor/raw instances): in the functional model an original and its clone under any interleaving behave as each alone — immediate, stated for the record; ALIASING in the Rust cannot be exhibited by the model and is decided by the oracles c20.clone and the cloned cursors of c20.curm',
        'cache_transparent, cache_repopulate: for every strategy and every scanned unit list, AbbreviationsCache::get returns exactly what parsing the offset returns (Ok or Err alike)',
        'reset_is_fresh, initialize_history_free, history_independent, history_equals_fresh: in the model of UnwindContext every use of a context (all rows / abandoned after k rows / address lookup; failing or not; any storage capacity; any starting state, reachable or not) gives the result it gives on a fresh context — by induction on the history',
    ],
    explored_only=[
        'that the Rust initialize really starts from a reset state: impl-side oracle c20.hist (reused vs fresh, exhaustive short histories)',
        'corpus-scale checks of entry buffers (c20.buf), re-rooting (c20.tree), clones of EntriesCursor/LineRows/OperationIter/CfiEntriesIter (c20.clone): impl-side oracles over the compiler corpus with seeded damage; buffer contents after a FAILED read are unspecified by the API and only mirrored (c20.bufm), not claimed; LineRows / OperationIter / CfiEntriesIter clones have no model here',
        'that the Rust cache stores exactly what parsing yields: oracle c20.cache (none vs Duplicates vs All, populated twice)',
    ],
    level_text='Unwind context, abbreviation cache, entry buffers, cursor cache and EntriesTree re-rooting are theorems over Gallina models tied to gimli step by step (c20.histm, c20.bufm, c20.curm, c20.treem); clone independence is immediate in a functional model and rests on the oracles. Coq theorems state history independence of the UnwindContext model for all histories (any length, failing entries included, every capacity); the implementation is checked on every run by evaluating all histories up to length 3 (thorough 4) over a pool of 12 succeeding/failing FDEs, plus random longer ones with abandoned tables and address lookups, on one reused context versus fresh contexts, for heap and custom storages, in debug and release builds.',
    level_note='The theorems are easy in the model because its initialize begins with reset, mirroring the code; the weight is on the impl-side oracle. The cache model takes DebugAbbrev::abbreviations as a pure function of the offset.',
    technique='Coq proof of history independence over a Gallina model of UnwindContext + impl-side oracle (reused = fresh) on exhaustive short histories (debug+release)',
))
