from props import Prop, Stream, reg

# Streams are grouped by clause of the property; append new clauses' streams to the list.
UNWIND_CONTEXT = [
    Stream('c20.hist', 3, 4, 'oracle', exhaustive='every history of length <= 3 (thorough 4) over a pool of 12 FDEs x storages heap,(2,3),(8,256),Vec, evaluated on one reused UnwindContext and on fresh ones'),
    Stream('c20.histm', 2, 3, 'model', exhaustive='every history of length <= 2 (thorough 3) over the same pool; results on the reused context predicted by the model'),
]

reg(Prop('C20', UNWIND_CONTEXT, level='proof (partial)', clauses=[], design_ref='§5 C20',
    level_text='placeholder',
    level_note='',
    technique='Coq proof of history independence over a Gallina model of UnwindContext + impl-side oracle (reused = fresh) on exhaustive short histories (debug+release)',
))
