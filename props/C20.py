from props import Prop, Stream, reg

# Streams are grouped by clause of the property; owners of the other clauses append their lists.
UNWIND_CONTEXT = [
    Stream('c20.hist', 3, 4, 'oracle', timeout=3000,
           exhaustive='EVERY history of length <= 3 (thorough 4) over a pool of 12 FDEs (nothing-at-all, 0/1/many initial rules, failing in the CIE initial instructions, mid-FDE, by StackFull in the FDE and in save_initial_rules, by TooManyRegisterRules, decode error in the CIE, set_loc backwards, CIE leaving pushed rows) x storages heap,(2,3),(8,256),Vec, each also with every table abandoned after one row; evaluated on ONE reused UnwindContext and on fresh ones; + random histories of length 2..11 with partial iteration and address lookups on all six storages'),
    Stream('c20.histm', 2, 3, 'model', timeout=3000,
           exhaustive='every history of length <= 2 (thorough 3) over the same pool; results on the reused context predicted by the model (CfiRun.run_history)'),
]
ENTRY_BUFFERS = []        # EntriesRaw::read_entry into reused buffers          (to be added)
TREE_REROOT = []          # EntriesTree::root between partial traversals          (to be added)
ITERATOR_CLONES = []      # clones of LineRows / CfiEntriesIter / EntriesCursor   (to be added)
ABBREV_CACHE = []         # AbbreviationsCache strategies                          (to be added)

reg(Prop('C20', UNWIND_CONTEXT + ENTRY_BUFFERS + TREE_REROOT + ITERATOR_CLONES + ABBREV_CACHE,
    level='proof (partial)', design_ref='§5 C20',
    clauses=[
        'reset_is_fresh, initialize_history_free, history_independent, history_equals_fresh: in the model of UnwindContext every use of a context (all rows / abandoned after k rows / address lookup; failing or not; any storage capacity; any starting state, reachable or not) gives the result it gives on a fresh context — by induction on the history',
    ],
    explored_only=[
        'that the Rust initialize really starts from a reset state: impl-side oracle c20.hist (reused vs fresh, exhaustive short histories)',
        'entry buffers, EntriesTree re-rooting, iterator clones, abbreviation caches: not yet covered in this file',
    ],
    level_text='Unwind-context clause only: Coq theorems state history independence of the UnwindContext model for all histories (any length, failing entries included, every capacity); the implementation is checked on every run by evaluating all histories up to length 3 (thorough 4) over a pool of 12 succeeding/failing FDEs, plus random longer ones with abandoned tables and address lookups, on one reused context versus fresh contexts, for heap and custom storages, in debug and release builds.',
    level_note='The theorems are easy in the model because its initialize begins with reset, mirroring the code; the weight is on the impl-side oracle. Other clauses of C20 are to be appended by their owners.',
    technique='Coq proof of history independence over a Gallina model of UnwindContext + impl-side oracle (reused = fresh) on exhaustive short histories (debug+release)',
))
