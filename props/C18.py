from props import Prop, Stream, reg

reg(Prop('C18', [
    Stream('c18.wops', 8000, 1500000, 'model', exhaustive='every DW_EH_PE byte x sizes {1,2,3,4,8} x constant/symbolic x both byte orders; every size argument 0..255 for write_address/write_offset/write_offset_at'),
    Stream('c18.rprog', 8000, 1500000, 'model', exhaustive='every relocatable/plain read kind at offsets 0..2 x one relocation of every width at offsets 0..2 x implicit/explicit addends'),
    Stream('c18.hdr', 5000, 800000, 'model'),
    Stream('c18.ranges', 5000, 800000, 'model'),
    Stream('c18.write', 1500, 150000, 'oracle', exhaustive='every DWARF version 2..5 x format x address size x byte order x frame-table flavour with all features on'),
    Stream('c18.corpus', 1, 8, 'oracle', modes=('release',), exhaustive='every corpus variant (gcc/clang, DWARF 2..5, split, type units, dwarf64)'),
], level='proof (partial)', clauses=[], design_ref='§5 C18',
    level_text='placeholder',
    technique='Coq proof over a Gallina model of RelocateWriter/RelocateReader + differential correspondence and implementation-side replay of recorded relocations',
))
