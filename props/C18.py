from props import Prop, Stream, reg

reg(Prop('C18', [
    Stream('c18.wops', 20000, 1500000, 'model', exhaustive='every DW_EH_PE byte x sizes {1,2,3,4,8} x constant/symbolic x both byte orders; every size argument 0..255 for write_address/write_offset/write_offset_at'),
    Stream('c18.rprog', 20000, 1500000, 'model', exhaustive='every relocatable/plain read kind at offsets 0..2 x one relocation of every width at offsets 0..2 x implicit/explicit addends'),
    Stream('c18.hdr', 10000, 800000, 'model'),
    Stream('c18.ranges', 10000, 800000, 'model'),
], level='proof (partial)', clauses=[], design_ref='§5 C18',
    level_text='placeholder',
    technique='Coq proof over a Gallina model of RelocateWriter/RelocateReader + differential correspondence and implementation-side replay of recorded relocations',
))
