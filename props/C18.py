from props import Prop, Stream, reg

reg(Prop('C18', [
    Stream('c18.wops', 8000, 400000, 'model',
           exhaustive='every DW_EH_PE byte x sizes {1,2,3,4,8} x constant/symbolic x both byte orders; every size argument 0..255 for write_address/write_offset/write_offset_at'),
    Stream('c18.rprog', 8000, 400000, 'model',
           exhaustive='every relocatable/plain read kind at offsets 0..2 x one relocation of every width at offsets 0..2 x implicit/explicit addends (fitting and overflowing)'),
    Stream('c18.hdr', 5000, 200000, 'model'),
    Stream('c18.ranges', 5000, 200000, 'model'),
    Stream('c18.write', 1500, 40000, 'oracle', timeout=900,
           exhaustive='every DWARF version 2..5 x format x address size x byte order x frame-table flavour (none, .debug_frame with several CIEs, .eh_frame absptr, .eh_frame absptr+personality/LSDA) with all features on'),
    Stream('c18.corpus', 1, 4, 'oracle', modes=('release',), timeout=900,
           exhaustive='every corpus variant (41 section sets: gcc/clang, DWARF 2..5, split, type units, dwarf64, packages)'),
], level='proof', design_ref='§5 C18',
    clauses=[
        'reloc_write_transparent: for every list of Writer-trait calls, both byte orders, every symbol/section address assignment: applying the relocations a recording RelocateWriter produced to its bytes = bytes of EndianVec given the resolved values, and the recorded list is exactly one entry per relocatable call at its position (side condition: positional writes never land on a recorded site; counter-example without it proved)',
        'writer_no_panic: neither writer panics on well-typed calls',
        'prim_reloc / prim_reloc_value: read_address / read_sized_offset / read_offset through RelocateReader at a site (pos, w, addend) = the plain method on the pre-applied bytes = v (+) addend',
        'parser_reloc: for EVERY parser expressible in the reader monad (plain reads of any width, LEB128, skip, len, split, the three relocatable methods), every byte string and every relocation set with disjoint sites: RelocateReader run = plain run on the pre-applied section whenever plain reads avoid the sites and relocatable reads hit them exactly with a fitting value; instances for parse_unit_header and the .debug_ranges/.debug_loc pair iteration; the converse example (a site read plainly differs) proved',
        'identity_reloc: RelocateReader with the identity Relocate = the inner reader, every parser, every input',
        'reader_no_panic: RelocateReader never panics (debug assertions and pointer subtraction of offset_from unreachable), both build modes',
        'write_read_transparent: bytes of a recording writer read back through RelocateReader with the recorded relocations = directly written bytes read plainly',
    ],
    explored_only=[
        'that the real gimli writers (units, line programs, range/location lists, frame tables) call write_address/write_offset/write_offset_at/write_eh_pointer for every address and cross-section offset and nothing else: c18.write builds generated objects twice and checks applied == direct byte for byte, and recorded sites == sites the readers hand to Relocate',
        'that the real gimli parsers other than parse_unit_header and the raw range iteration use the relocatable methods for every relocated field: replay of recorded relocations (two symbol assignments, RELA and REL addends) through RelocateReader vs plain reader on pre-applied bytes over DIE attributes, line rows, resolved ranges/locations, CFI entries; compiler corpus with identity and perturbed address sites',
        'Relocate implementations other than the relocation map of object::read::RelocationMap (the theorem parser_reloc is about that map; identity_reloc and reader_no_panic are about any/identity Relocate)',
    ],
    assumptions=['usize = u64 (ReaderOffset::from_u64 never fails)', 'a relocated value that does not fit its field has no pre-applied counterpart: Relocate receives no width, so transparency is claimed only for fitting values (stated in trace_ok)'],
    technique='Coq proof over a Gallina model of RelocateWriter/RelocateReader (writer-op language with two interpreters; reader monad with plain and relocating interpreters) + differential correspondence with gimli (debug+release) + implementation-side replay of recorded relocations',
    level_text='PARTIAL proof. Proved in Coq for all inputs of the model: writing through the recording writer and applying the recorded relocations equals direct writing, for every sequence of Writer calls (so for every gimli writer, which emits bytes only through those calls), with the exact list of recorded relocations; reading through RelocateReader with a relocation-map Relocate equals reading the pre-applied section, for every parser expressible by the Reader methods, under the stated side condition (relocations only where the parser uses a relocatable method, values fitting); identity relocation is invisible; no panics. The models are tied to gimli on every run (about 65k cases quick: op scripts, reader programs, unit headers, range lists; exhaustive over pointer encodings and sizes). That the real writers and parsers use the relocatable primitives exactly for addresses and cross-section offsets is decided by replay on generated objects and the compiler corpus only; that search found two places where they do not: the .debug_frame CIE pointer was read with a plain integer primitive (repaired in /repo 714a553, now part of the replayed relocatable fields: FDE CIE pointer, FDE/CIE absptr addresses, personality, LSDA) and .eh_frame udata/sdata-encoded pointers cannot be relocated on the reading side (known finding).',
    level_note='Trusted: Coq kernel; the hand-written model Reloc.v (tied by differential execution); harness/src/c18.rs (its own apply-relocation routines, the recording writer, the relocation-map Relocate, the semantic dump); the corpus. The reader-monad syntax has no primitive for find/read_null_terminated_slice, to_slice or offset_id, so parsers using them (strings) are covered by replay only.',
))
