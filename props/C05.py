from props import Prop, Stream, reg

reg(Prop('C05', [
    Stream('c05.pe', 1, 1, 'spec', exhaustive='all 256 DW_EH_PE bytes: validity, format, application, absent, indirect'),
    Stream('c05.ptr', 4000, 400000, 'model', exhaustive='all 256 encoding bytes x address sizes {0..9,16,32,255} x bases present/absent (accept/reject + decoded pointer); every valid encoding x sizes 1,2,4,8 x 18 boundary values x 4 base sets x both byte orders'),
    Stream('c05.ent', 1500, 250000, 'model', exhaustive='every order of every subset of zLPRS (65) x {eh_frame v1, debug_frame v1,v3,v4} x 32/64-bit x LE/BE'),
    Stream('c05.raw', 2500, 400000, 'model', exhaustive='every 0- and 1-byte section, zero/reserved/64-bit length prefixes, both kinds'),
    Stream('c05.look', 300, 120000, 'model', exhaustive='grid of c05.ent with probes start-1,start,start+1,end-1,end,end+1 of every FDE'),
    Stream('c05.lraw', 1000, 150000, 'model'),
    Stream('c05.hdr', 200, 50000, 'model', exhaustive='table lengths 1,2,3,4,5,7,8,16,33 on every run'),
    Stream('c05.hraw', 400, 70000, 'model', exhaustive='witness families for the two unchecked u64 operations of EhHdrTable'),
    Stream('c05.nopanic', 200, 40000, 'oracle'),
], clauses=[], design_ref='§5 C05',
    level_text='placeholder',
    level_note='',
    technique='Coq proof over a Gallina model of the CIE/FDE reader + differential correspondence with gimli (debug+release)',
))
