from props import Prop, Stream, reg

reg(Prop('C05', [
    Stream('c05.pe', 1, 1, 'spec', exhaustive='all 256 DW_EH_PE bytes: validity, format, application, absent, indirect'),
    Stream('c05.ptr', 4000, 200000, 'model', exhaustive='all 256 encoding bytes x address sizes {0..9,16,32,255} x bases present/absent (accept/reject + decoded pointer); every valid encoding x sizes 1,2,4,8 x 18 boundary values x 4 base sets x both byte orders'),
    Stream('c05.ent', 1500, 60000, 'model', exhaustive='every order of every subset of zLPRS (65) x {eh_frame v1, debug_frame v1,v3,v4} x 32/64-bit x LE/BE'),
    Stream('c05.raw', 2500, 100000, 'model', exhaustive='every 0- and 1-byte section, zero/reserved/64-bit length prefixes, both kinds'),
    Stream('c05.look', 300, 10000, 'model', exhaustive='grid of c05.ent with probes start-1,start,start+1,end-1,end,end+1 of every FDE'),
    Stream('c05.lraw', 1000, 40000, 'model'),
    Stream('c05.hdr', 200, 5000, 'model', exhaustive='table lengths 1,2,3,4,5,7,8,16,33 on every run'),
    Stream('c05.hraw', 400, 8000, 'model', exhaustive='witness families for the two unchecked u64 operations of EhHdrTable'),
    Stream('c05.nopanic', 200, 5000, 'oracle'),
], clauses=[
    'eh_pe_valid_all / eh_pe_decomposition / pointer_encoding_accept: all 256 DW_EH_PE bytes, accept/reject = LSB table, format|application|indirect fields (vm_compute sweep)',
    'pointer_decode_all_inputs: parse_encoded_pointer on every reader state and encoding byte = validity check, omit, base_spec selection with the specific missing-base errors, value, truncation to the address size',
    'encoded_value_roundtrip / pointer_roundtrip: absptr, uleb128, udata2/4/8, sleb128, sdata2/4/8 x absptr/pcrel/textrel/datarel/funcrel x indirect read back as ptr_spec says, consuming exactly the encoded bytes (includes LEB128 read-after-encode lemmas for all u64 / i64)',
    'bsearch_any_table / bsearch_spec: EhHdrTable::lookup against its actual loop (split at len/2 rows, pivot, len - len/2 | len/2): search postcondition for any table, row of the last location <= a for strictly sorted tables, any length',
    'entries_roundtrip / fde_bound_to_cie: iterating enc_section(es) yields exactly the expected CIE/FDE items (debug_frame v1/3/4 and eh_frame, 32/64-bit, every augmentation item list, zero lengths skipped / terminator stops); every FDE parses against the CIE its pointer designates with the expected addresses, LSDA and instruction window',
    'linear_lookup_is_scan / linear_lookup: fde_for_address = exhaustive scan over entries() for every byte string; = first covering FDE / NoUnwindInfoForAddress iff none when all FDEs parse',
    'hdr_lookup_agrees / hdr_path_sound: for a well-formed header over non-overlapping non-wrapping FDEs the binary-search path = the linear search for every address; for every header the FDE returned covers the address',
    'entries_total, fde_parse_total, fde_for_address_total, hdr_parse_total, table_iter_total, table_iter_stops_after_error, table_nth_total, lookup_total, hdr_fde_for_address_total: no panic and the stated fuel suffices for ALL byte strings, both build modes (address size in {1,2,4,8})',
], explored_only=[
    'unwind_info_for_address (instruction execution is C06): harness oracle on nop-only instruction blobs — row = [initial_address, end_address) of the FDE both lookups return',
    'overlapping FDE ranges (paths may legitimately differ): model-vs-implementation only (c05.hraw, c05.lraw)',
    'address sizes outside {1,2,4,8} passed by the caller (set_address_size / EhFrameHdr::parse argument): the model mirrors the u8 shift arithmetic of ones_sized incl. its debug-build panics; correspondence only (c05.ptr exhaustive over sizes 0..9,16,32,255)',
    'corpus .eh_frame/.eh_frame_hdr vs readelf: not built',
], design_ref='§5 C05',
    level_text='Coq theorems over a function-by-function Gallina model of the CIE/FDE reader (read/cfi.rs) state, for all inputs: the DW_EH_PE accept/reject table (all 256 bytes); encoded pointers decode to the LSB meaning for every format x application x indirect with the exact error for omit/aligned/missing bases; sections produced by the spec encoder (all versions, augmentations, 32/64-bit, FDEs/CIEs in any order, zero lengths) iterate to exactly the encoded entries with each FDE bound to its CIE; fde_for_address is the exhaustive scan; the .eh_frame_hdr binary search (proved against its real loop) returns the last row <= address and, for well-formed headers over disjoint FDEs, the header path equals the linear search; none of the parsers/iterators/lookups panics or exceeds its fuel on any byte string in either build mode. The model is tied to gimli on every run by ~70k differential cases (debug+release) incl. exhaustive encoding-byte x address-size sweeps and harness oracles (lookup = own exhaustive scan = header path, stop-after-error).',
    level_note='Trusted: Coq kernel, the hand-written model (tied by differential execution only), OCaml/Rust/Python glue incl. the Debug-output parsing used to observe private reader windows. usize = u64. get_cie is fixed to Section::cie_from_offset. Instruction bytes are opaque (C06).',
    technique='Coq proof over a Gallina model of the CIE/FDE reader + differential correspondence with gimli (debug+release)',
))
