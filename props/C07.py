from props import Prop, Stream, reg

reg(Prop('C07', [
    Stream('c07.decode', 20000, 1000000, 'model', shards=3, exhaustive='every opcode byte 0x00-0xff x 60 boundary operand tails x address size 1/2/4/8 x format x version 2/5 x endianity; odd address sizes 0/3/16/255'),
    Stream('c07.ops', 5000, 300000, 'model', shards=3, exhaustive='every opcode byte as the first operation of an expression'),
    Stream('c07.value', 20000, 1000000, 'model', shards=3, exhaustive='every Value operation x every pair of value types x boundary operands x address masks; shift counts 0..70'),
    Stream('c07.eval', 20000, 1000000, 'model', shards=3, exhaustive='every program of length <= 3 (thorough: <= 4) over the 41-letter alphabet of DESIGN C07, address sizes 1/2/4/8; with initial value / fixed-capacity storage: length <= 2'),
    Stream('c07.spec', 10000, 500000, 'spec', shards=3, exhaustive='every Value operation x matching type pairs x boundary operands x address sizes 1/2/4/8, generic results reduced modulo the address size, against the specification algebra (Spec/StackSpec.v); class k = generic shift counts beyond the address size'),
], clauses=[], design_ref='§5 C07', level='proof (partial)',
    level_text='placeholder',
    level_note='',
    technique='Coq proof over a Gallina model of Operation::parse, Value arithmetic and Evaluation + differential correspondence with gimli (debug+release)',
))
