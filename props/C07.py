from props import Prop, Stream, reg

reg(Prop('C07', [
    Stream('c07.decode', 20000, 1000000, 'model', exhaustive='every opcode byte 0x00-0xff; opcodes with operands: x 55 boundary operand tails x address size 1/2/4/8 x format x version 2/5 x endianity; all opcodes: odd address sizes 0/3/16/255'),
    Stream('c07.ops', 5000, 300000, 'model', exhaustive='every opcode byte as the first operation of an expression (OperationIter stops after the first error)'),
    Stream('c07.value', 20000, 1000000, 'model', exhaustive='every Value operation x every pair of value types x boundary operands x address masks (incl. masks that are not 2^k-1); shift counts 0..70 in every integer type; convert/reinterpret to every type; Value::parse lengths 0..9'),
    Stream('c07.eval', 20000, 1000000, 'model', exhaustive='every program of length <= 3 over the 41-letter alphabet of DESIGN C07 after a 3-deep prelude, address sizes 1/2/4/8 (thorough: length 4 at size 4, second prelude length 3); with initial value / fixed-capacity storage: length <= 2; Evaluation::new for every address size 0..255; iteration-limit sweeps 0..9'),
    Stream('c07.spec', 10000, 500000, 'spec', exhaustive='every Value operation x matching type pairs x boundary operands x address sizes 1/2/4/8, generic results reduced modulo the address size, against the specification algebra (Spec/StackSpec.v); class k = generic shift counts beyond the address size (defect repaired in 0858756, now an agreeing class) incl. evaluator-level witnesses; whole evaluations against the normalised machine'),
], level='proof', design_ref='§5 C07',
    clauses=[
        'decode_table: Operation::parse = table-driven decode of the DWARF 5 operand layout, all 256 opcode bytes, every encoding, both build modes',
        'decode_roundtrip: parse (canonical encoding of o ++ rest) = (o, rest) for every well-formed operation',
        'decode_no_panic / decode_consumes / decode_build_mode_independent / operations_terminate',
        'value_ops: every Value operation (add sub mul div rem and or xor not neg abs shl shr shra eq ge gt le lt ne convert reinterpret), canonicalised, equals the stack-machine algebra on canonical values, address sizes 1/2/4/8, every fops',
        'mask_invariance_partial: per operation, every operation incl. shift counts (the lift through the evaluator is correspondence-only)',
        'pc_in_bounds (invariant of every evaluator step) + branch_target_exact (compute_pc accepts exactly 0 <= target <= len)',
        'iteration_bound: with max_iterations = Some n, every u32 n, every conversation terminates within fuel n+1, never panics, <= n operations evaluated and <= 2n decoded; iteration_unlimited: no limit => counter untouched; eval_no_panic for any limit or none',
        'pieces: shape of result()/value_result() after completion (unsized piece is the only piece; implicit Address piece of the value result)',
        'normalised_machine_canonical: the specification oracle of c07.spec (model with every generic value reduced when pushed) keeps its stack canonical',
    ],
    explored_only=[
        'float arithmetic results (+ - * /, float<->integer and f32<->f64 conversions are the section record fops; the driver instantiates it with hardware doubles and exact Zarith conversions)',
        'eval_refines / whole-evaluation mask invariance: the lifting of the per-operation theorems through evaluate_one_operation is checked by correspondence only (c07.eval mirrors the code, c07.spec compares gimli with the specification algebra and evaluator-level witnesses)',
        'the request/answer protocol (exactly the register / memory range / base type / index the operation names): stated by the model evaluator, tied by c07.eval full traces',
    ],
    assumptions=['usize = u64 (ReaderOffset::from_u64 cannot fail)', 'EndianSlice reader'],
    level_text='Coq theorems over a Gallina model of Operation::parse, Value arithmetic and Evaluation: the decoder equals the DWARF 5 operand-layout table for all 256 opcode bytes and round-trips the canonical encoder; every Value operation equals the stack machine\'s algebra modulo the address size (per-operation signedness, shift/width rules) for address sizes 1/2/4/8 and any IEEE implementation; the pc stays inside the bytecode and branch targets are accepted exactly in [0,len]; with an iteration limit every evaluation (all programs, answers, configurations, both build modes) terminates within the bound without panic; completed results have the documented piece shape. Two defects found by this check were repaired in gimli (0858756 shift counts modulo the address size, 273f60c iteration limit compared before counting); the theorems are now stated without exceptions. Tied to gimli by ~1.5M cases per quick run, exhaustive over opcode bytes and short programs.',
    level_note='Partial: whole-evaluation refinement to the spec machine and float arithmetic are correspondence-only. Trusted: Coq kernel, the hand-written models (tied by differential execution in debug+release), OCaml/Rust/Python glue incl. the float glue of the driver.',
    technique='Coq proof over a Gallina model of Operation::parse, Value arithmetic and Evaluation (request/answer traces) + differential correspondence with gimli (debug+release) + spec-algebra oracle stream',
))
