from props import Prop, Stream, reg

reg(Prop('C02', [
    Stream('c02.abbrev', 3000, 300000, 'spec'),
    Stream('c02.abbrevbytes', 20000, 1000000, 'model'),
    Stream('c02.header', 3000, 300000, 'spec'),
    Stream('c02.headerbytes', 10000, 500000, 'model'),
    Stream('c02.forest', 2000, 200000, 'spec'),
    Stream('c02.nav', 3000, 300000, 'model'),
    Stream('c02.corpus', 1, 1, 'oracle'),
], clauses=[], explored_only=[], design_ref='§5 C02'))
