from props import Prop, Stream, reg

reg(Prop('C08', [
    Stream('c08.rng', 30000, 300000, 'spec'),
    Stream('c08.rngm', 30000, 300000, 'model'),
    Stream('c08.rngb', 30000, 300000, 'model',
           exhaustive='address size 1, v5 and v4: every section of <= 2 bytes; opcode 0..9 followed by every string of length 2..4 over {00,01,02,7f,80,fd,fe,ff}'),
    Stream('c08.loc', 30000, 300000, 'spec'),
    Stream('c08.locm', 30000, 300000, 'model'),
    Stream('c08.locb', 30000, 300000, 'model',
           exhaustive='same domain as c08.rngb x {v5, v4 pairs, v4 GNU split-DWARF}'),
    Stream('c08.rraw', 20000, 200000, 'spec'),
    Stream('c08.lraw', 20000, 200000, 'spec'),
    Stream('c08.rawm', 30000, 300000, 'model'),
    Stream('c08.tbl', 30000, 300000, 'model',
           exhaustive='get_address for every address size 0..255 x 10 index/base points x both byte orders'),
    Stream('c08.die', 20000, 300000, 'model'),
    Stream('c08.aoff', 20000, 200000, 'model'),
], clauses=[
    'nonempty_below_tombstone_{ranges,locations,next}: for ANY section bytes, offset, base, address table, version, address size and build mode, every range yielded by RngListIter / LocListIter has begin < end and begin < min_tombstone(address_size); tombstone_threshold: that value is 2^(8*size)-2 for sizes 1,2,4,8',
    'raw_roundtrip_{ranges,locations}: raw iteration over the encoding of any well-formed entry list (DW_RLE_*, DW_LLE_*, pre-v5 pairs, GNU v4 split-DWARF layout; any prefix, any trailing bytes) returns exactly those entries',
    'resolve_refines_{ranges,locations}: on well-formed lists iterate-next = ListSpec.resolve_rng / resolve_loc (running base, base_addressx/startx via the address table at addr_base, offset pairs and start_length wrapping at the address size, default_location, dropped empty/reversed/tombstoned entries, version-selected section)',
    'offset_table_{get_offset,get_address,get_str_offset}: lookup = the word at base + index*width in unbounded arithmetic; outside the section (incl. any overflow) = UnexpectedEof; base+offset outside u64 = UnsupportedOffset; get_address_rejects_invalid_size',
    'helpers_*: die_ranges on low_pc+high_pc(address) = [low,high); low_pc+high_pc(constant n) = [low,low+n) or AddressOverflow (either attribute order, low_pc by addrx through the table); DW_AT_ranges by offset (rebased by rnglists_base, wrapping, in a pre-v5 dwo) or by rnglistx = the resolved list against low_pc; loclistx through the offset table',
    'no_panic_* / fuel_suffices / iter_terminates / iter_progress / raw_iter_stops_after_error: no Panic and no OutOfFuel for every input in both build modes (resolving iterators: address size in {1,2,4,8}; raw iterators, tables, die_ranges: every configuration); at most |section| items+errors before Ok(None); every call shrinks the input or reports the end',
], explored_only=[
    'lists whose address index lies outside .debug_addr (the iterator reports the error for that entry and continues): model vs implementation on c08.rngm/locm only',
    'die_ranges / unit_ranges through a real one-DIE unit (attribute form -> AttributeValue normalisation is C03 territory): c08.die, c08.aoff',
    'unit_ranges = die_ranges of the root DIE; default rnglists/loclists base of Unit::new: harness oracles',
    'corpus comparison with llvm-dwarfdump: not run in this worktree',
], assumptions=[
    'usize = u64; section lengths < 2^64',
    'caller-made Encoding with address_size outside 1..8 makes RngListIter/LocListIter panic in checked builds (ones_sized shift overflow) - model agrees with gimli; stated as no_panic_ranges_unvalidated_size_refuted, not claimed as a defect of parsing untrusted DWARF because every header parser validates the size',
], design_ref='§5 C08',
    level_text='Coq theorems over an executable model of rnglists.rs / loclists.rs / addr.rs / str.rs / the dwarf.rs range helpers: every yielded range is non-empty and below the tombstone for any input whatsoever; raw iteration returns the encoded entries; resolution equals the DWARF 5 §2.17.3/§2.6.2 (and pre-v5 pair) meaning on well-formed lists; indexed tables are exact lookups with checked arithmetic; low_pc/high_pc/ranges helpers; no panic, termination. The model is tied to gimli by ~0.9M differential cases per quick run in debug and release (incl. exhaustive short sections), with the range oracle evaluated inside the harness.',
    level_note='Trusted: Coq kernel, the hand-written model (tied by differential execution only), OCaml/Rust/Python glue, the attribute-form mapping used by the c08.die generator.',
    technique='Coq proof (resolution refinement, codec round trip, universal range invariant) over a Gallina model + differential correspondence with gimli (debug+release) + in-harness range/lookup oracles',
))
