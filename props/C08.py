from props import Prop, Stream, reg

reg(Prop('C08', [
    Stream('c08.rng', 30000, 1500000, 'spec'),
    Stream('c08.rngm', 30000, 1500000, 'model'),
    Stream('c08.rngb', 30000, 1500000, 'model',
           exhaustive='address size 1, v5 and v4: every section of <= 2 bytes; opcode 0..9 followed by every string of length 2..4 over {00,01,02,7f,80,fd,fe,ff}'),
    Stream('c08.loc', 30000, 1500000, 'spec'),
    Stream('c08.locm', 30000, 1500000, 'model'),
    Stream('c08.locb', 30000, 1500000, 'model',
           exhaustive='same domain as c08.rngb x {v5, v4 pairs, v4 GNU split-DWARF}'),
    Stream('c08.rraw', 30000, 1000000, 'spec'),
    Stream('c08.lraw', 30000, 1000000, 'spec'),
    Stream('c08.tbl', 30000, 1500000, 'model', exhaustive='get_address for every address size 0..255 x 10 index/base points x both byte orders'),
    Stream('c08.die', 30000, 1500000, 'model'),
    Stream('c08.aoff', 20000, 1000000, 'model'),
], clauses=[], design_ref='§5 C08', level_text='placeholder', level_note='', technique=''))
