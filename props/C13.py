from props import Prop, Stream, reg

reg(Prop('C13', [
    Stream('c13.new', 1, 1, 'model', exhaustive='LineProgram::new for every (line_base, line_range) in -128..127 x 0..255 (65536 pairs), model outcome'),
    Stream('c13.newpre', 1, 1, 'oracle', exhaustive='the same 65536 pairs against the documented precondition line_base <= 0 < line_base + line_range'),
    Stream('c13.grid', 3, 16, 'model', exhaustive='per LineEncoding tuple the grid line advance -300..300 x operation advance 0..600 as two-row programs: every third point in the quick tier (120401 per tuple), every point in the thorough tier (361201 per tuple); tuples over line_base -128..0, line_range 1..255, min_inst_len/max_ops in {1,2,4}'),
    Stream('c13.prog', 60000, 1500000, 'model'),
    Stream('c13.edge', 300, 30000, 'model'),
    Stream('c13.known', 20, 200, 'oracle'),
], clauses=[
    'advance_correct: for every documented LineEncoding (line_base -128..0, line_range 1..255 with line_base + line_range > 0, min_inst_len >= 1, max_ops >= 1), both build modes, every i64 line advance and every u64 operation advance, the instructions chosen by generate_row do not panic (no underflow of op_advance - op_range, no failed debug assertion), contain only special opcodes 13..255, and executed on the DWARF state machine advance the line by exactly line_adv, apply exactly op_adv and append exactly one row',
    'new_accepts_documented / new_panics_outside_documented: LineProgram::new accepts exactly the documented precondition',
    'row_fields (+ _file/_column/_isa/_negate iff lemmas): discriminator, basic_block, prologue_end, epilogue_begin set for the row and cleared after it, negate_stmt parity, file (raw per version), column, isa reach the row\'s values and are emitted iff they differ',
    'op_advance_value_computed / op_advance_vliw: the operation advance computed by op_advance is turned back by the reader into exactly (address + offset difference, op_index) for every min_inst_len/max_ops',
    'generate_row_correct, end_sequence_correct, seq_reset: one call = exactly one row with every register as given; after end_sequence writer prev_row and reader registers are both initial (versions <= 5)',
    'insn_bytes_roundtrip: LineRd.parse_insn decodes every instruction LineInstruction::write emits (via C04 insn_roundtrip)',
    'program_rows_readback: for every header carrying the writer parameters whose program bytes are the written instructions, LineRd.rows_model returns exactly the meaning of the script (via C04 rows_refine_spec; all versions)',
    'program_roundtrip_v2_v4: FULL round trip for versions 2-4, both formats/byte orders/address sizes: LineWr.write -> LineRd.parse_header -> rows_model = meaning, directory and file tables (name, directory, timestamp, size) read back',
    'program_roundtrip_partial: for every program from LineProgram::new and every script of begin_sequence/set_address/row/end_sequence calls that respects script_ok, the emitted instruction list executed on the DWARF state machine yields exactly the rows the script means',
    'op_advance_overflow_refuted: witness that outside script_ok (address_advance * max_ops >= 2^64) op_advance panics in checked builds and wraps in unchecked builds (the one remaining known finding); repaired_witnesses_read_back: the former witnesses (lines >= 2^63, set_address at op_index <> 0) now satisfy the theorem',
], explored_only=[
    'byte level of the VERSION 5 header only (entry formats, the three string forms, MD5, LLVM source): bytes(gimli) = bytes(model) on every case plus read-back through gimli::read inside the harness (stream c13.prog); versions 2-4 and all instruction bytes are theorems',
    'file/directory identity (de-duplication by name+directory, info replacement) — harness oracle with an independent re-implementation of the documented add_file/add_directory behaviour',
], design_ref='§5 C13',
    level_text='Coq theorems over a Gallina model of write::LineProgram: advance_correct (opcode selection of generate_row is exact for every documented LineEncoding incl. line_range up to 255, both build modes, all i64 line advances, all u64 operation advances; no underflow; special opcodes within 13..255), row_fields, op_advance_vliw, seq_reset, per-call correctness of generate_row/end_sequence and program_roundtrip_partial (instruction lists of whole multi-sequence scripts execute on the DWARF line state machine to exactly the scripted rows). The byte-level half (header, file tables, LEB/instruction encodings read back by the reader) is decided by correspondence: model bytes = gimli bytes and gimli::read read-back on ~0.7M cases per quick run. Five defects found by this check were repaired in /repo (eea5f40, 4a025e8, c8c5891, 64c2c71); one (unchecked op_advance arithmetic for address advances >= 2^64/max_ops) remains listed in known_findings.txt.',
    level_note='Trusted: Coq kernel, the hand-written model (tied to the Rust by differential execution in debug and release on every run, modelled at /repo a8af08f), the DWARF meaning in Spec/LineAdvSpec.v (unbounded Z; it coincides with gimli\'s wrapping/saturating reader because every intermediate line value of a written program stays within 0..2^64-1), OCaml/Rust/Python glue. program_roundtrip is proved at the instruction level only (_partial).',
    technique='Coq proof over a Gallina model of write::LineProgram against a DWARF line-state-machine spec + differential correspondence with gimli (debug+release) with a gimli::read read-back oracle',
))
