from props import Prop, Stream, reg

reg(Prop('C13', [
    Stream('c13.new', 1, 1, 'model', exhaustive='every (line_base, line_range) in -128..127 x 0..255'),
    Stream('c13.newpre', 1, 1, 'oracle', exhaustive='every (line_base, line_range) in -128..127 x 0..255 against the documented precondition'),
    Stream('c13.grid', 4, 24, 'model', exhaustive='per LineEncoding tuple: every line advance -300..300 x operation advance 0..600 (361201 two-row programs)'),
    Stream('c13.prog', 60000, 3000000, 'model'),
    Stream('c13.known', 20, 200, 'oracle'),
], clauses=[], design_ref='§5 C13',
    level_text='placeholder',
    level_note='',
    technique='Coq proof over a Gallina model of write::LineProgram + differential correspondence with gimli (debug+release) with a read-back oracle',
))
