from props import Prop, Stream, reg

reg(Prop('C11', [
    Stream('c11.form', 1, 1, 'model', exhaustive='every write::AttributeValue variant x version {0..6,65535} x format x address size {1,4,8}'),
    Stream('c11.units', 12000, 300000, 'model', timeout=900,
           exhaustive='every AttributeValue variant x version 2..5 x format x address size 4/8 x endianness (3 payload draws each) in a unit with forward/backward/cross references and sibling pointers'),
    Stream('c11.sem', 6000, 150000, 'oracle', timeout=900),
    Stream('c11.misuse', 200, 5000, 'spec'),
], level='proof', design_ref='§5 C11', clauses=[], technique='', level_text='', level_note=''))
