from props import Prop, Stream, reg

reg(Prop('C11', [
    Stream('c11.form', 1, 1, 'model',
           exhaustive='every write::AttributeValue variant x version {0..6,65535} x format x address size {1,4,8}: AttributeValue::form'),
    Stream('c11.units', 12000, 300000, 'model', timeout=900,
           exhaustive='every AttributeValue variant x version 2..5 x format x address size 4/8 x endianness (3 boundary payload draws each), '
                      'placed before a referenced entry in a unit with forward, backward and ref_addr references and sibling pointers; odd versions / address sizes; '
                      'boundary sizes: >127 / >255 (thorough: >16383) abbreviation codes, .debug_str and units beyond 64 KiB, 16383/16384-byte blocks and expressions, '
                      'file indices >127, 12 units; 64 wide-root units (21..80 children, interleaved base types, 30+ member structs) + 10% of the random share; '
                      '150 abbreviation-key units (groups of DIEs equal or differing in exactly one of tag / children flag / sibling / attribute order / one name / one form / '
                      'attribute count / implicit_const payload, boundary i64 payloads) + 10% of the random share'),
    Stream('c11.sem', 6000, 150000, 'oracle', timeout=900),
    Stream('c11.conv', 2500, 60000, 'oracle', timeout=900),
    Stream('c11.misuse', 200, 5000, 'spec'),
    Stream('c11.glue', 3000, 120000, 'model', timeout=900,
           exhaustive='composed writer model UnitGlueWr (UnitWr x OpWr x ListsWr): every reference kind (call_ref, variable_value, implicit_pointer, call, parameter_ref, '
                      'deref_type, nested in entry_value) to every entry before / at / after the holder, in an Exprloc attribute and in two location lists of two shapes, '
                      'with RangeListRef / LocationListRef / DebugInfoRef / UnitRef attributes, x versions 2-5 x both formats x 2 address sizes / byte orders x 3 child arrangements '
                      'x second unit absent / before / after (4036 cases); compared: .debug_info, .debug_ranges, .debug_rnglists, .debug_loc, .debug_loclists after Dwarf::write '
                      'and the three resolved fix-up lists (offset:size:value) observed through a recording Writer'),
], level='proof', design_ref='§5 C11',
    clauses=['form_size_write_len', 'form_size_write_decodes', 'offsets_exact', 'refs_resolve', 'roundtrip', 'unit_roundtrip',
             'abbrev_codes', 'abbrev_dedup', 'strings_add', 'strings_shared', 'strings_offset',
             'unencodable_is_error', 'encodable_is_ok', 'dangling_ref_is_error', 'dangling_ref_invalid_reference', 'patch_no_panic', 'file_index_roundtrip', 'fixups_all_resolve',
             'attr_read_by_reader', 'abbrevs_read_by_reader', 'unit_read_by_reader',
             'base_types_first', 'base_types_first_perm', 'size_no_panic', 'write_no_panic', 'calc_no_panic', 'write_tree_no_panic',
             'exprloc_attr_size_write', 'exprloc_attr_roundtrip', 'exprloc_forward_ref', 'glue_offsets_exact', 'glue_ref_is_mark', 'glue_ref_orphan', 'glue_ref_operand'],
    explored_only=[
        'model-level composition with the reader models is PROVED (attr_read_by_reader: Attr.parse_attribute; abbrevs_read_by_reader: AbbrevRd.parse_abbrevs; unit_read_by_reader: DieRd raw entry reader via Forest.enc_forest + C02 raw_is_preorder); the step from those reader models to gimli::read itself is C02/C03\'s correspondence plus this harness oracle — every case is read back '
        'with gimli\'s reader and its semantic dump (tags, nesting, attribute meanings, strings/ranges/locations/file names resolved, references as entry identities) '
        'is compared with the dump predicted from the script; written order = base types first; every DW_AT_sibling points behind its subtree',
        'expression bytes, range/location list offsets and the line program offset are opaque parameters of the model UnitWr (owned by C13/C15/C16); '
        'their use by the unit writer is tied by the byte-level stream and the semantic oracle. '
        'SINCE wrglue: for expressions and list offsets this is no longer exploration only — Model/UnitGlueWr.v instantiates the opaque Expression with OpWr '
        '(size under the table built so far, write under the complete table, fix-ups at w.len()) and the list offsets with the ListsWr / location-list writers\' results; '
        'PROVED: exprloc_attr_size_write (the x_size/x_out hypothesis discharged by C15 expr_size), exprloc_attr_roundtrip (C03 attribute reader + C07 decoder on the written attribute, '
        'operations laid out from attribute position + prefix, fix-ups = those of that layout), exprloc_forward_ref, glue_offsets_exact (the composed calculate_offsets / write passes ARE '
        'UnitWr.calc / write_die on one instantiated tree, so offsets_exact / roundtrip / unit_read_by_reader apply with die_expr_ok discharged; the table the expressions were written under '
        'maps every tree entry to its DIE position), glue_ref_operand (end to end: the unit-relative operand of a typed op / call / parameter_ref = WMark position of its target minus the unit offset), glue_ref_is_mark / glue_ref_orphan; tied by stream c11.glue (bytes of five sections + three fix-up lists vs Dwarf::write). '
        'Still opaque: the line program offset; still not composed in Coq: gunit_write / gtable_write as a whole (header, length patch, three write_debug_info_fixups passes over '
        'several units) — their pieces are proved, the assembly is tied by c11.glue only',
        'cross-unit DebugInfoRef fix-ups: success implies every fix-up resolved (theorem); that the patched value is the target\'s position follows from offsets_exact per unit, '
        'the composition over the unit table is checked by the streams (1-4 units, Dwarf::write, incremental UnitTable::write, DwarfUnit::write); '
        'c11.conv: units converted and written one at a time through ConvertUnit::write (all / none / a subset) with the fix-ups left to the final Dwarf::write, '
        'ref_addr attributes and DW_OP_call_ref / implicit_pointer / variable_value in exprlocs and location lists between units in both directions (semantic oracle only: '
        'reference-carrying expressions are opaque to the model)',
    ],
    technique='Coq theorems over a Gallina model of write::unit/abbrev/str (two-pass layout, three attribute switches, fix-ups, de-duplicating tables) + '
              'differential execution of API scripts against gimli (section bytes = model bytes, debug+release) + semantic read-back oracle through gimli::read',
    level_text='PROVED on the model, for every tree, every AttributeValue variant, every version/format/address size/byte order and both build modes: '
               'size = bytes written and the bytes decode under the chosen form (form_size_write_*); calculate_offsets assigns each entry the position where write emits it '
               '(offsets_exact) and every UnitRef placeholder is patched with its target\'s unit-relative position (refs_resolve); the patched entries decode, with the '
               'unit\'s own abbreviation table, to the written tree (roundtrip, unit_roundtrip = the same for the model of Unit::write as a whole); abbreviation and string '
               'tables de-duplicate with stable first-occurrence codes/ids and exact offsets; the classified unencodable requests are errors and are the only ones; '
               'reorder_base_types is the stable partition; size/write/calculate_offsets/write (tree) do not panic. '
               'The model is tied to gimli by byte-exact comparison of .debug_info/.debug_abbrev/.debug_str/.debug_line_str on ~16k (quick) / ~300k (thorough) generated API scripts '
               'plus gimli::read read-back of every case.',
    level_note='(wrglue) In the glue theorems the hypothesis "an Expression\'s predicted size equals the bytes it writes" is discharged by C15 for every GExpr; it remains only for opaque UnitWr Exprloc values. Restrictions of the composed model: tree given after reorder_base_types, LineProgram::none(), no string tables, (follow-up) OpWr.debug_info_offset now mirrors gimli fix c42c00d: ids beyond the entries vector (reserved, never added) are forward-reference / InvalidReference errors in the model too, and c11.glue / c15.expr generate them. '
               'Hypotheses that remain in the theorems: an Expression\'s predicted size equals the bytes it writes (C15), the unit fits 2^64 bytes, entry ids are unique '
               '(the arena is a tree), AttributeValue::String has no NUL (documented precondition). Trusted: the hand-written model (tied by differential execution only), '
               'Spec/UnitWrSpec.v as the meaning of DIE bytes, harness/src/c11.rs + dump.rs (script interpreter, predicted dump), OCaml glue computing list offsets for the '
               'restricted list shapes of the byte-level stream. Repaired in /repo after being found here: FileIndex numbered by the unit version instead of the line program version (c92c4f4), panic instead of Err for a reference to a reserved-never-added id beyond the entries vector (c42c00d); the model mirrors the repaired code. Known finding (listed): foreign-unit entry ids are detected only by debug_assert.',
))
