"""props.py — per-property configuration of ./check: Coq target, correspondence streams, tier sizes,
claimed level and what is theorem vs explored-only. Kept in one table so MANIFEST.json can be generated."""


class Stream:
    def __init__(self, name, quick_n, thorough_n, kind='model', modes=('debug', 'release'), shards=None,
                 timeout=300, exhaustive=''):
        self.name = name
        self.quick_n = quick_n
        self.thorough_n = thorough_n
        # kind 'spec'  : the expected column is proved (in Coq) to be the spec value for every input, so a
        #                difference IS a concrete input on which the implementation fails the property;
        # kind 'model' : the expected column mirrors the code; a difference breaks the correspondence only;
        # kind 'oracle': the harness evaluates a spec-level oracle on the implementation itself
        #                (round trip, reused = fresh, scan = lookup ...); expected is the fixed token.
        self.kind = kind
        self.modes = modes
        self.shards = shards
        self.timeout = timeout
        self.exhaustive = exhaustive


class Prop:
    def __init__(self, pid, streams, level='proof', clauses=None, explored_only=None, assumptions=None,
                 trusted_extra=None, technique='', level_text='', level_note='', design_ref=''):
        self.pid = pid
        self.streams = streams
        # the evidence/manifest schema only knows the bare category; 'partial' belongs in level_text
        self.level = 'proof' if str(level).startswith('proof') else level
        self.clauses = clauses or []
        self.explored_only = explored_only or []
        self.assumptions = assumptions or []
        self.trusted_extra = trusted_extra or []
        self.technique = technique
        self.level_text = level_text
        self.level_note = level_note
        self.design_ref = design_ref


TRUSTED_BASE = [
    'Coq 8.16.1 kernel + vm_compute (no native_compute); coqchk re-check in the thorough tier',
    'axioms: none (Print Assumptions of every property theorem must print "Closed under the global context")',
    'extraction: ExtrOcamlBasic only (bool/option/unit/list/prod/sumbool/sumor inductives, andb/orb inlined); no Extract Constant of ours',
    'ocaml/{conv,streams,s_*,main}.ml (generators, printing), harness/src/*.rs (drives the public gimli API, canonical printing, catch_unwind), check/props.py (diff, verdict, evidence), translate/*.py',
    'hand-written Gallina models mirror the Rust function by function; the tie is differential execution (both build modes) on every run',
    'rustc/cargo 1.95, OCaml 4.13.1',
]

RULE = ('cases are produced by gv-model (extracted Coq model + OCaml generators, one SplitMix64 stream from VERIF_SEED): '
        'exhaustive sub-domains first, then structured/boundary-biased random cases; every case is run on the model and on '
        'gimli built from /repo in debug (overflow checks) and release; a case is distinct by its full case line and '
        'non-trivial when its input payload is non-empty and its expected outcome is not an immediate EOF on empty input')


def nontrivial(case, expected):
    toks = case.split(' ')
    if len(toks) < 2:
        return False
    if all(t == '-' for t in toks[1:]):
        return False
    return True


def is_property_failure(kind, m):
    """Return a reason string when the mismatch is a concrete failing input for the property, else None."""
    a = m['actual']
    if a == 'panic' or a.startswith('abort') or a == 'hang':
        return 'implementation ' + a
    if 'mismatch' in a.split(' ')[0]:
        return 'spec-level oracle evaluated on the implementation failed: ' + a.split(' ')[0]
    if kind in ('spec', 'oracle'):
        return 'expected value is the proved specification value'
    return None


import os as _os
PROPS = {}


def reg(p):
    # theorems of the companion files Properties/<Cxx>_*.v (translator tie: tables regenerated from /repo's
    # source on every run and proved equal to the model's tables) are clauses of the property too
    import glob as _g, re as _re
    root = _os.path.dirname(_os.path.dirname(_os.path.abspath(__file__)))
    for f in sorted(_g.glob(_os.path.join(root, 'coq', 'Properties', p.pid + '_*.v'))):
        names = _re.findall(r'^\s*Theorem\s+(\w+)', open(f).read(), _re.M)
        for n in names:
            if n not in p.clauses:
                p.clauses.append(n)
    PROPS[p.pid] = p



NOT_CLAIMED = {}

# every props/Cxx.py registers itself
import importlib, pkgutil, os as _os
for _m in sorted(pkgutil.iter_modules([_os.path.dirname(_os.path.abspath(__file__))])):
    if _m.name.startswith('C') and _m.name[1:].isdigit():
        importlib.import_module('props.' + _m.name)
