from props import Prop, Stream, reg

reg(Prop('C09', [
    Stream('c09.uleb', 20000, 2000000, 'spec', exhaustive='all byte strings of length <= 2; runs of 6..10 continuation bytes x all 256 final bytes'),
    Stream('c09.sleb', 20000, 2000000, 'spec', exhaustive='same domain as c09.uleb'),
    Stream('c09.uleb32', 5000, 500000, 'spec'),
    Stream('c09.skipleb', 5000, 500000, 'spec'),
    Stream('c09.uleb16', 1, 1000000, 'spec', exhaustive='quick: all strings <= 2 bytes and 3-byte strings over an 18x34x256 grid; thorough: every string of length <= 3'),
    Stream('c09.wuleb', 20000, 2000000, 'spec', exhaustive='all values < 2^16, 2^k-1,2^k,2^k+1 for every k'),
    Stream('c09.wsleb', 20000, 2000000, 'spec', exhaustive='all values in [-2^15,2^15), +-(2^k-1,2^k,2^k+1)'),
    Stream('c09.fixed', 30000, 3000000, 'spec'),
    Stream('c09.sized', 10000, 1000000, 'spec', exhaustive='every size argument 0..255'),
    Stream('c09.ilen', 10000, 1000000, 'spec', exhaustive='0xffffffdf..0xffffffff'),
    Stream('c09.wdata', 10000, 1000000, 'spec', exhaustive='every size argument 0..255; boundary values per width'),
], clauses=[
    'uleb_exact', 'sleb_exact', 'uleb16_exact', 'uleb16_never_panics', 'uleb_u32_exact', 'uleb_u32_narrows',
    'skip_exact', 'leb_write_read_unsigned', 'leb_write_read_signed',
    'le_be_positional', 'fixed_le_be', 'fixed_le_be_app', 'fixed_eof_iff', 'fixed_write_read', 'fixed_read_write',
    'fixed_signed', 'read_uint_exact', 'sized_reads', 'sized_reads_ok', 'address_size_exact', 'size_ok_iff',
    'initial_len', 'initial_len_write', 'initial_len_write_read',
    'write_udata_exact', 'write_udata_read', 'write_sdata_exact', 'write_sdata_read', 'in_signed_iff',
    'add_sized_sound', 'add_sized_exact', 'wrapping_add_sized_exact', 'min_tombstone_exact', 'ones_sized_validated',
], explored_only=[
    'RunTimeEndian::{Little,Big} = LittleEndian/BigEndian: one bool in the model; cross-checked on the implementation by the c09.fixed harness oracle (endianity-mismatch)',
    'Writer::write_uleb128/write_sleb128 = Leb128::{unsigned,signed}.bytes(): harness oracle (writer-helper-mismatch) in c09.wuleb/c09.wsleb',
    'add_sized / wrapping_add_sized / min_tombstone / ones_sized: theorems about the model only; ReaderAddress is pub(crate), so there is no C09 stream for them (they are exercised through the aranges/range-list/line properties)',
    'Offset = usize = u64: ReaderOffset::from_u64 never fails on the checked platform (UnsupportedOffset on 32-bit targets is not modelled)',
], design_ref='§5 C09',
    level_text='Theorems (Coq) state that the LEB128 readers return exactly the mathematical value of the unique terminated prefix and reject exactly the encodings that do not fit, for every byte string; fixed-width, sized and initial-length codecs likewise. The model is tied to the Rust by running both on ~1.8M cases per quick run (exhaustive short strings, every size argument).',
    level_note='Trusted: Coq kernel, the hand-written model (tied by differential execution only), OCaml/Rust/Python glue. usize = u64 is assumed for offsets.',
    technique='Coq proof of exact LEB128/fixed-width/initial-length codec theorems over a Gallina model + differential correspondence with gimli (debug+release)',
))

