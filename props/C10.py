from props import Prop, Stream, reg

reg(Prop('C10', [
    Stream('c10.seq', 1, 100000, 'spec', exhaustive='every history of length <= 3 (thorough: <= 4) over a 24-symbol alphabet of reader calls on a fixed 5-byte section'),
    Stream('c10.ops', 30000, 1500000, 'spec'),
    Stream('c10.utf8', 5000, 500000, 'spec', exhaustive='every byte string of length <= 2; 17x8x4(x4) boundary grid of 3/4-byte sequences'),
    Stream('c10.parse', 20000, 900000, 'oracle'),
], level='proof',
    clauses=[
        'step_closed_form / failure_keeps_state / only_read_uint_panics: the function-by-function model of EndianReader (SubRange asserts, unchecked `len -= n`, debug_assert!s) equals a closed-form cursor machine; a failing call never moves the reader; no call inside the section panics except read_uint(n>8)',
        'inv_preserved, all_histories, one_reader_histories: off+len <= |buf| (ptr+len inside the allocation) for every live and every returned reader after any history of calls/clone/split/drop on a pool of readers, any arguments, debug and release',
        'bytes_are_a_view, view_unique, view_correct, split_exact: reader bytes, returned readers and returned byte strings are runs of the section at the reported offset and length; split halves concatenate to the original',
        'read_*_refines, find_spec, to_string_spec: reads are the list-level codecs of Model/Prim.v (C09) on the reader bytes and leave exactly the unconsumed rest; find = first occurrence; to_string accepts exactly well-formed UTF-8 (Unicode table 3-7)',
        'offset_ids, offset_from_section, history_offset_ids: lookup_offset_id(section, offset_id(r)) = Some(position of r) for every reader of every history; accepted ids are exactly the section addresses; others map to None',
        'reloc_identity(+_histories): RelocateReader<EndianReader, identity> = the inner reader for every call and every history (split = clone+truncate+skip; address/offset reads call offset_from(section) first)',
        'kinds_agree, kinds_agree_histories: the EndianSlice model and the EndianReader model give identical readers and results for every call (including `empty`) and every history',
    ],
    explored_only=[
        'that the five Rust reader kinds (EndianSlice, EndianRcSlice, EndianArcSlice, EndianReader<_, custom StableDeref buffer>, RelocateReader<_, identity> over slice and Rc) equal the model and each other: differential execution after every call (result/error, offset_from(section), len, bytes = section[off..off+len], to_slice borrowed, pointer range inside the source buffer, lookup_offset_id round trip)',
        'RelocateReader over EndianSlice (the theorem is for the EndianReader inner reader)',
        'memory safety of the unsafe blocks, Rc/Arc clone/drop orders, Send/Sync: exercised (custom buffer must stay alive while any reader lives and be freed afterwards) but not part of the claim',
        'whole-blob parses (.debug_abbrev, .debug_line v2-4, expressions) give identical dumps under all six kinds (c10.parse)',
        'to_string_lossy (compared with String::from_utf8_lossy in the harness only); LEB128/initial-length reads through a reader (C09 covers the codecs)',
    ],
    design_ref='§5 C10',
    level_text='Coq theorems over a function-by-function Gallina model of the reader kinds (one Reader-trait record instantiated for EndianReader/SubRange, EndianSlice and RelocateReader): the window invariant off+len<=|buf| holds for every live and returned reader after every history of calls, clones, splits and drops with any arguments in debug and release; every reader, sub-reader and returned byte string is a run of the section bytes at its reported offset and length; offset ids map back to positions and only section addresses are accepted; the identity-relocating reader equals its inner reader for every call; the slice and pointer models agree on every call and every history (the `empty` divergence found by this check was repaired in gimli fd639ac). The model is tied to gimli on every run: ~130k histories/blobs (exhaustive histories of length <=3 over 24 calls, random histories, UTF-8 grid) on six Rust reader kinds, compared with the model and with each other after every call.',
    level_note='Partial: equality of the Rust reader kinds with the model is by differential execution only; memory safety of `unsafe`, Rc/Arc drop order and Send/Sync are outside the claim (exercised, explored-only). usize = u64 and allocations that do not wrap the address space (wf_alloc) are assumed.',
    technique='Coq proof (window invariant over all histories, view correctness, offset ids, identity relocation, slice/pointer model agreement) over a Gallina model of the Reader trait and its three implementations + differential correspondence with six gimli reader kinds (debug+release)',
))
