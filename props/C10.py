from props import Prop, Stream, reg

reg(Prop('C10', [
    Stream('c10.seq', 1, 100000, 'spec', exhaustive='every history of length <= 3 (thorough: <= 4) over a 24-symbol alphabet of reader calls on a fixed 5-byte section'),
    Stream('c10.ops', 40000, 1500000, 'spec'),
    Stream('c10.utf8', 5000, 500000, 'spec', exhaustive='every byte string of length <= 2; 17x8x4(x4) boundary grid of 3/4-byte sequences'),
    Stream('c10.parse', 30000, 900000, 'oracle'),
], level='proof (partial)', clauses=[], design_ref='§5 C10',
    level_text='placeholder',
    level_note='placeholder',
    technique='Coq proof over a Gallina model of the reader kinds + differential correspondence with gimli (debug+release)',
))
