from props import Prop, Stream, reg

reg(Prop('C06', [
    Stream('c06.insn', 20000, 1000000, 'model', exhaustive='every opcode byte 0..255 x both vendors x address sizes 1,2,4,8 x both byte orders, with two operand tails'),
    Stream('c06.seq', 4, 5, 'model', exhaustive='every instruction sequence of length <= 4 (thorough 5) over a 14-symbol alphabet x every CIE/FDE split x storages heap,(2,3),(1,1); length 5 (6) over an 8-symbol sub-alphabet', timeout=900),
    Stream('c06.lim', 3000, 300000, 'model', exhaustive='every storage x {cap-1,cap,cap+1} rules / rows, 0/1/2/3 initial rules'),
    Stream('c06.rand', 40000, 3000000, 'model'),
    Stream('c06.raw', 20000, 2000000, 'model', exhaustive='every opcode byte x 7 operand tails x both vendors, in the CIE and in the FDE'),
    Stream('c06.at', 4000, 400000, 'model'),
], clauses=[], design_ref='§5 C06',
    level_text='placeholder',
    level_note='',
    technique='Coq proof over a Gallina model of UnwindContext/UnwindTable + differential correspondence with gimli (debug+release)',
))
