from props import Prop, Stream, reg

# Kinds: the expected column of c06.seq/lim/rand is the value of the guarded DWARF specification
# (Theorem model_is_guarded_spec: the model equals Spec/CfaSpec.v run_spec_lim on every input, and the inputs
# are written by the spec encoder enc_wire whose decoding is Theorem insn_decode) => 'spec'.
# c06.raw (malformed bytes), c06.insn (decoder only) and c06.at (lookup) mirror the code => 'model'.
reg(Prop('C06', [
    Stream('c06.insn', 20000, 300000, 'model',
           exhaustive='every opcode byte 0..255 x both vendors x address sizes 1,2,4,8 x both byte orders, two operand tails, in the CIE and in the FDE'),
    Stream('c06.seq', 4, 5, 'spec', timeout=3000,
           exhaustive='EVERY instruction sequence of length <= 4 (thorough <= 5, and length 6 over an 8-symbol sub-alphabet) over a 14-symbol alphabet (two registers, offsets {0,1,-1}, remember/restore_state, restore, def_cfa*, def_cfa_expression, advance_loc) x EVERY split into CIE initial instructions + FDE instructions, on heap storage; custom storage (2,3) wherever it can differ, (1,1) up to length 3 (4)'),
    Stream('c06.lim', 3000, 100000, 'spec', timeout=1500,
           exhaustive='every storage {heap 4/192, (1,1), (2,3), inline (4,192), (8,256), Vec/Vec} x {cap-1,cap,cap+1} distinct rules set in the CIE / FDE / split, overwrite-at-limit, clear-then-add; remember_state depth {cap-2..cap+1} x {0,1,2,3} initial rules x pushes in CIE / FDE'),
    Stream('c06.rand', 40000, 1000000, 'spec', timeout=1500),
    Stream('c06.raw', 20000, 500000, 'model', timeout=1500,
           exhaustive='every opcode byte x 7 operand tails x both vendors, as the only FDE instruction and as the only CIE instruction'),
    Stream('c06.at', 4000, 100000, 'model', timeout=1500),
], level='proof', design_ref='§5 C06',
    clauses=[
        'insn_decode: parse_insn (enc_wire w ++ rest) = Ok (meaning w, rest) for all 28 encoded forms of every DW_CFA opcode, all operands in range, both vendors (negate_ra_state only under AArch64, else UnknownCallFrameInstruction); includes ULEB128/SLEB128 operand round trips against the model readers',
        'rows_shape / rows_starts_nondecreasing: for ALL instruction byte strings, capacities, factors, address sizes, both build modes: rows contiguous from the initial address, non-final rows start <= end, last row ends at the FDE end address (also the rows delivered before an error)',
        'model_is_guarded_spec: the model of UnwindContext/UnwindTable (initial_rule shortcut, saved row under the stack, min_size, swap_remove, capacities) equals the DWARF machine with limits expressed on the spec occupancy, on every input: same rows (range, cfa, args_size, rule of EVERY register) and same outcome',
        'refines, error_is_specific, no_silent_limit (limits hit exactly: 4 rows / 192 rules Examples), no_panic + fuel suffices',
    ],
    explored_only=[
    'context reuse inside every case (rows after each of three fixed polluter FDEs = rows on a fresh context; `reuse-mismatch` oracle) — the history-independence theorems themselves are C20\'s',
        'CIE/FDE header parsing and encoded pointers (property C05); DW_CFA_set_loc with an augmentation pointer encoding',
        'behaviour of next_row when called again after it returned an error',
        'compiler-built corpus vs readelf -wF (not run in this check)',
    ],
    assumptions=['usize = u64 (expression offsets/lengths never fail Offset::from_u64)',
                 'UnwindContextStorage with zero rows is excluded (UnwindContext::new_in itself panics there)'],
    level_text='Coq theorems over a function-by-function Gallina model of CallFrameInstruction::parse, UnwindContext and UnwindTable: for every CIE/FDE instruction byte string, alignment factor, address size, vendor, storage capacity and both build modes the model returns exactly the rows and outcome of the DWARF call-frame machine of Spec/CfaSpec.v guarded by its own occupancy (rule of every register compared); decoding round trip for every opcode form; row-shape invariants for all inputs; no panic. The model is tied to gimli on each run by ~400k cases (exhaustive sequences up to length 4 over a reduced alphabet in every CIE/FDE split, every storage at cap-1/cap/cap+1, random long streams over all opcodes, malformed bytes) in debug and release builds through DebugFrame/entries/rows/next_row with custom UnwindContextStorage impls.',
    level_note='Trusted: Coq kernel; the hand-written model (tied only by differential execution); OCaml section encoder/printers; Rust harness. The theorems are about the model, not the Rust text.',
    technique='Coq proof (simulation between a Gallina model of UnwindContext/UnwindTable and a DWARF CFA machine spec) + differential correspondence with gimli (debug+release)',
))
