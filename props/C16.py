from props import Prop, Stream, reg

reg(Prop('C16', [
    Stream('c16.rng', 6000, 600000, 'model',
           exhaustive='single-entry and base+entry range lists over every kind x 7 boundary values squared (0,1,0x20,max-2,max-1(all-ones),2^(8s),2^64-1) x versions 2-5 x address sizes 1,2,4,8 x low_pc absent/0/non-zero'),
    Stream('c16.loc', 6000, 600000, 'model',
           exhaustive='same domain as c16.rng for location lists (+DefaultLocation); expression lengths 0,1,127,128,16383,16384,65535,65536 in v4 and v5'),
    Stream('c16.unit', 6000, 600000, 'model',
           exhaustive='design item F8 and its four relatives x versions 2-5 x address sizes 1,2,4,8'),
    Stream('c16.rej', 4000, 400000, 'spec'),
    Stream('c16.nopanic', 2000, 200000, 'oracle',
           exhaustive='StartLength sums at the u64 / i64 boundary and BaseAddress entries x address sizes 0,1,2,3,4,8,9,16,31,32,33,255 x versions 2,4,5'),
], clauses=[], design_ref='§5 C16',
    level_text='placeholder',
    level_note='placeholder',
    technique='Coq proof over a Gallina model of write/range.rs + write/loc.rs + differential correspondence with gimli (debug+release) and read-back through gimli\'s reader',
))
