from props import Prop, Stream, reg

reg(Prop('C16', [
    Stream('c16.rej', 3000, 200000, 'spec',
           exhaustive='address sizes 0,9,10,16,31,32,33,64,128,255 x versions 2-4 x range/location tables'),
    Stream('c16.nopanic', 1500, 100000, 'oracle',
           exhaustive='(regression of the fixed panics) StartLength sums at the u64 / i64 boundary and BaseAddress entries x address sizes 0,1,2,3,4,8,9,16,31,32,33,255 x versions 2,4,5'),
    Stream('c16.rng', 4000, 300000, 'model',
           exhaustive='single-entry and base+entry range lists over every kind x 7 boundary values squared (0,1,0x20,max-2,max-1(all-ones),2^(8s),2^64-1) x versions 2-5 x address sizes 1,2,4,8 x low_pc absent/0/non-zero'),
    Stream('c16.loc', 4000, 300000, 'model',
           exhaustive='same domain as c16.rng for location lists (+DefaultLocation); expression lengths 0,1,127,128,16383,16384,65535,65536 in v4 and v5'),
    Stream('c16.unit', 4000, 300000, 'model',
           exhaustive='design item F8 and its four relatives x versions 2-5 x address sizes 1,2,4,8'),
], design_ref='§5 C16',
    clauses=[
        'rejects_v4 / rejects_unit_rng / rejects_unit_loc: the first empty range, OffsetPair without base, StartEnd/StartLength with base, entry beginning at the all-ones marker, StartLength sum that does not fit, or DefaultLocation of a DWARF 2-4 list yields exactly InvalidRange / MissingBaseAddress / UnexpectedBaseAddress / ValueTooLarge (prefix writable); rejects_bad_address_size: address size outside 1..8 -> UnsupportedWordSize; rejected_never_bytes: Ok implies no entry was in a rejected class',
        'ambiguity (full): on Ok the writer emitted exactly the pair encoding of the list, no emitted non-terminator pair is (0,0) and no non-base pair begins with the all-ones marker',
        'write_read_v5: through Unit::write, every added range/location list decodes at offsets.get(id) to exactly its entries and resolves to the meaning of the written list for every base address',
        'write_read_v4 (full): through Unit::write, every added list decodes at its offset to pairs that resolve, relative to the base address the reader derives from the root DIE, to the meaning of the written list',
        'write_read_by_reader_v5 / write_read_by_reader_v4: composed with the C08 reader model (Model/ListsRd.v): the raw iterator at offsets.get(id) yields exactly the written entries (v5) / the pairs the list is written as (v2-4) with expression bytes unchanged, and the resolving iterator with the base address the reader derives yields exactly the ListWrSpec meaning; the writer bytes are proved equal to the ListSpec encoders on the translated entries and C08 raw_roundtrip / resolve_refines are reused',
        'dedup_rng / dedup_loc / one_copy_v4 / one_copy_v5 / added_lists_read_back_v4/_v5: equal lists <-> equal ids, table = the distinct lists in first-occurrence order, one emitted copy per table element, offsets = running positions; add..add; write; decode end to end',
        'base_from_root(_iff): have_base_address = root has a DW_AT_low_pc other than Address::Constant(0); flag false implies the reader base address is 0',
        'no_panic (full): the list part of Unit::write never panics for any input of the Rust types (the repaired code has no unchecked arithmetic; the model has no build-mode parameter)',
    ],
    explored_only=[
        'the DIE side of the round trip (DW_AT_ranges / DW_AT_location forms and the offsets written into .debug_info) is exercised only by the harness read-back through read::Dwarf (C11 models it)',
        'the meaning of a list is compared with what gimli\'s READER yields only by the harness oracle (readback-mismatch); the Coq decoders dec5/dec4 are this property\'s own spec of the emitted formats (C08 models the reader)',
        'Address::Symbol (relocating writers): the model is EndianVec, where a symbolic address is Err(InvalidAddress); expressions other than Expression::raw',
    ],
    assumptions=['usize = u64', 'writer = EndianVec (Writer::write_address default)'],
    level_text='Proof (Coq) over a function-by-function model of write_ranges / write_rnglists / write_loc / write_loclists / table add / the list part of Unit::write (as repaired by /repo commits 85ffc95 and e67c31b): rejects (both directions, including marker clashes, overflowing StartLength sums and bad address sizes), ambiguity, write->decode->resolve round trips for DWARF 5 and DWARF 2-4 without side conditions, de-duplication, base-address consistency between writer flag and reader base, panic freedom for all inputs. The model is tied to gimli by ~40k cases per quick run (section bytes and offsets compared sharply, both build modes) and gimli\'s reader is run on gimli\'s output against the Coq meaning of the written list.',
    level_note='Trusted: Coq kernel; the hand-written model (tied by differential execution only); ListWrSpec (meaning of a list, tombstone/empty-range dropping as documented by gimli\'s reader); OCaml/Rust/Python glue.',
    technique='Coq proof over a Gallina model of write/range.rs + write/loc.rs + differential correspondence with gimli (debug+release) and read-back through gimli\'s reader',
))
