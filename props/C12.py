from props import Prop, Stream, reg

reg(Prop('C12', [
    Stream('c12.corpus', 1, 1, 'oracle', shards=16, timeout=900,
           exhaustive='every non-split corpus variant: whole-unit conversion (forest, attribute meanings, line rows) + .eh_frame + .debug_frame'),
    Stream('c12.cfi', 12000, 1000000, 'oracle', timeout=900),
    Stream('c12.line', 8000, 500000, 'oracle', timeout=900),
    Stream('c12.vliw', 2000, 100000, 'oracle', timeout=900),
    Stream('c12.line5', 1, 1, 'oracle', timeout=900,
           exhaustive='versions 2..5 x DWARF32/64 x address size 4/8 x both byte orders x every subset of {timestamp,size,MD5,source} (v5) x 1..4 files'),
    Stream('c12.arith', 5000, 500000, 'spec', exhaustive='2^k-1, 2^k, 2^k+1 for k in {0,7,8,15,16,30,31,32,33,62,63} for offsets, factored offsets x factors, alignment factors, advance accumulation'),
    # the converter models against the real converters (the converted write-side objects are compared)
    Stream('c12.cficonv', 30000, 1000000, 'model', timeout=900),
    Stream('c12.exprconv', 30000, 1500000, 'model', timeout=900),
    Stream('c12.listconv', 20000, 1000000, 'model', timeout=900),
    Stream('c12.attrconv', 30000, 1000000, 'model', timeout=900),
], level='proof', design_ref='§5 C12',
    clauses=['cfi_offset_exact_or_error', 'cfi_factored_offset_exact_or_error', 'cfi_factors_exact_or_error', 'cfi_advance_exact_or_error',
             'cfi_insn_convert_sound', 'cfi_insn_convert_each', 'cfi_convert_write_read_sound', 'cfi_normal_form_cie', 'cfi_normal_form_fde',
             'expr_convert_sound', 'expr_convert_sound_bytes', 'expr_branch_target_exact', 'expr_offsets_sorted',
             'expr_converted_well_typed', 'expr_fuel_suffices', 'expr_normal_form_partial',
             'range_convert_sound', 'loc_convert_sound', 'list_normal_form_v5', 'list_normal_form_v4',
             'attr_convert_sound', 'attr_file_index_rule', 'attr_file_index_written', 'attr_implicit_const',
             'attr_flag_present', 'attr_dwo_id_normal_form'],
    explored_only=[
        'whole-pipeline meaning preservation (Dwarf::from with entry ids / string tables / line programs, FrameTable::from for both sections incl. CIE/FDE headers, pointer encodings, personality/LSDA): semantic-dump oracle on the compiler corpus and on generated CFI / line programs',
        'ConvertLineProgram (line_convert_sound): oracle streams c12.line / c12.vliw only; two known findings (mid-sequence set_address, VLIW op_index)',
        'second conversion reproduces the first for whole expressions and whole units (semantic equality + identical abbreviation table): oracle; proved for CFI programs, range/location lists and, per operation, for expressions (expr_normal_form_partial)',
        'the converted table read back has an unwind table at all (cfi_convert_write_read_sound is conditional on the read-back run succeeding; the oracle stream c12.cfi re-reads every converted table)',
    ],
    technique='Coq component theorems that compose the reader-side meaning (C03/C06/C07/C08) with the writer-side read-back theorems (C11/C14/C15/C16) through hand-written models of the converters, each model tied to gimli by a correspondence stream comparing the converted write-side objects; plus the semantic-dump round-trip oracle on the implementation (meaning(in) = meaning(read(write(convert(in)))) or Err)',
    level_text='PARTIAL: proved per component — CFI instruction programs (every instruction variant; unwind tables of source and converted programs agree at every address, also after writing and decoding), expressions (every operation variant up to the documented normal forms; branches land on the designated operation; bad targets are InvalidBranchTarget), range and location lists (resolved ranges preserved), self-contained attribute values incl. the file-index rule, normal form for CFI programs and lists. Whole-unit conversion and line programs are decided by the impl-side oracle: gimli\'s own reader computes the meaning (forest with resolved strings/addresses/ranges/locations/references, line rows with resolved files, unwind rows) of the input and of the converted+written output, which must be equal unless conversion returns an error; a second conversion must reproduce the output.',
    level_note='Trusted: harness/src/dump.rs (meaning function: merges identical adjacent unwind rows, drops empty line sequences, applies the writer\'s documented base-types-first order, ignores DW_AT_sibling/*_base/GNU_locviews which the converter documents as not carried); the Debug rendering of write-side objects used by the c12.*conv streams (whitespace and base_id removed). Hypotheses of the theorems: address sizes <= 8 (CFI), non-relocating convert_address (lists, attributes), values of the Rust field types where stated. Skeleton units (.dwo links) are outside the stream.',
))
