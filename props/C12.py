from props import Prop, Stream, reg

reg(Prop('C12', [
    Stream('c12.corpus', 1, 1, 'oracle', shards=16, timeout=900,
           exhaustive='every non-split corpus variant: whole-unit conversion (forest, attribute meanings, line rows) + .eh_frame + .debug_frame'),
    Stream('c12.cfi', 12000, 1000000, 'oracle', timeout=900),
    Stream('c12.line', 8000, 500000, 'oracle', timeout=900),
    Stream('c12.vliw', 2000, 100000, 'oracle', timeout=900),
    Stream('c12.arith', 5000, 500000, 'spec', exhaustive='2^k-1, 2^k, 2^k+1 for k in {0,7,8,15,16,30,31,32,33,62,63} for offsets, factored offsets x factors, alignment factors, advance accumulation'),
], level='proof', design_ref='§5 C12',
    clauses=['cfi_offset_exact_or_error', 'cfi_factored_offset_exact_or_error', 'cfi_factors_exact_or_error', 'cfi_advance_exact_or_error'],
    explored_only=[
        'whole-pipeline meaning preservation (Dwarf::from, FrameTable::from for both sections): semantic-dump oracle on the compiler corpus and on generated CFI / line programs',
        'second conversion reproduces the first (semantic equality + identical abbreviation table)',
    ],
    technique='semantic-dump round-trip oracle on the implementation (meaning(in) = meaning(read(write(convert(in)))) or Err) + Coq theorems on the conversion arithmetic',
    level_text='PARTIAL: the component theorems of DESIGN §5 C12 are being added; today the property is decided by the impl-side oracle: gimli\'s own reader computes the meaning (forest with resolved strings/addresses/ranges/locations/references, line rows with resolved files, unwind rows) of the input and of the converted+written output, which must be equal unless conversion returns an error; a second conversion must reproduce the output.',
    level_note='Trusted: harness/src/dump.rs (meaning function: merges identical adjacent unwind rows, drops empty line sequences, applies the writer\'s documented base-types-first order, ignores DW_AT_sibling/*_base/GNU_locviews which the converter documents as not carried). Skeleton units (.dwo links) are outside the stream.',
))
