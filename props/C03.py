from props import Prop, Stream, reg

reg(Prop('C03', [
    Stream('c03.forms', 20000, 1500000, 'model',
           exhaustive='every known form x version 2-5 x format x address size 1/2/4/8 x byte order x (byte-string pool + spec-encoded boundary data, exact / trailing byte / truncated); DW_FORM_indirect depth 1-3 to every known form; every unknown form code 0..0xffff; data4/data8 x names 0..0x8f x version 1-6 x format'),
    Stream('c03.lists', 40000, 3000000, 'model',
           exhaustive='huge block lengths (2^64-1 .. 2^32) in every position before fixed forms'),
    Stream('c03.size', 1, 1000000, 'model',
           exhaustive='quick: every form code 0..0xffff x 2 encodings, known forms x version 1-6 x format x 8 address sizes; thorough: every form code x 32 encodings'),
    Stream('c03.value', 1, 1000000, 'model',
           exhaustive='quick: names 0..0x8f and 0x2100..0x213f x every parser-producible raw kind x boundary payloads, every other name 0..0xffff x 2 kinds; thorough: every name x every kind'),
    Stream('c03.helpers', 20000, 1000000, 'model',
           exhaustive='all 47 AttributeValue variants x 2^k-1,2^k,2^k+1 and negatives'),
], clauses=[], design_ref='§5 C03',
    level_text='placeholder',
    level_note='',
    technique='Coq proof over a Gallina model of parse_attribute/skip_attributes/get_attribute_size/Attribute::value + differential correspondence with gimli (debug+release)',
))
