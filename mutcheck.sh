#!/bin/sh
# mutcheck.sh <patch.diff> <Cxx> [tier] — run ./check against a scratch worktree of /repo with the patch
# applied, without touching /repo. Exit status = that of ./check (1 = detected).
set -e
ROOT="$(cd "$(dirname "$0")" && pwd)"
PATCH="$(realpath "$1")"; PID="$2"; TIER="${3:-quick}"
TAG="gvmut_$$"
WT="/tmp/$TAG/repo"; HD="/tmp/$TAG/harness"
mkdir -p "/tmp/$TAG"
git -C /repo worktree add -q --detach "$WT" HEAD
cleanup() { git -C /repo worktree remove --force "$WT" 2>/dev/null || true; rm -rf "/tmp/$TAG"; }
trap cleanup EXIT
git -C "$WT" apply "$PATCH"
mkdir -p "$HD"
cp -r "$ROOT/harness/src" "$ROOT/harness/build.rs" "$ROOT/harness/Cargo.toml" "$ROOT/harness/.cargo" "$HD/"
cp /repo/Cargo.lock "$HD/Cargo.lock"
sed -i "s#path = \"/repo\"#path = \"$WT\"#" "$HD/Cargo.toml"
set +e
GV_REPO="$WT" GV_CORPUS="${GV_CORPUS:-$ROOT/corpus/sections}" GV_HARNESS="$HD" GV_WORK="/tmp/$TAG/work" GV_EVIDENCE="${GV_EVIDENCE:-/tmp/$TAG/evidence}" GV_REPLAY="${GV_REPLAY:-$ROOT/replay/mut}" "$ROOT/check" "$PID" --tier "$TIER"
rc=$?
# the translator tie regenerated coq/Gen from the patched tree: restore it from /repo
[ -f "$ROOT/translate/tables.py" ] && python3 "$ROOT/translate/tables.py" /repo "$ROOT/coq/Gen" >/dev/null 2>&1
echo "mutcheck: exit $rc"
exit $rc
