#!/bin/sh
# seedverify.sh <Cxx> <diff> <demo.rs> — confirm a seeded property-breaking change in a scratch worktree of /repo:
#   1. unchanged tree: demo test passes;  2. patched tree: crate builds, gimli's own test suite passes,
#   demo test FAILS;  3. ./check <Cxx> against the patched tree reports a VIOLATION (exit 1).
# Prints one summary line per step; exit 0 iff 1-2 hold (3 is reported, not required).
set -u
ROOT="$(cd "$(dirname "$0")" && pwd)"
PID="$1"; DIFF="$(realpath "$2")"; DEMO="$(realpath "$3")"
TAG="gvseed_$$"; WT="/tmp/$TAG/repo"
mkdir -p "/tmp/$TAG"
git -C /repo worktree add -q --detach "$WT" HEAD || exit 2
cleanup() { git -C /repo worktree remove --force "$WT" 2>/dev/null; rm -rf "/tmp/$TAG"; }
trap cleanup EXIT
name=$(basename "$DEMO" .rs)
cp "$DEMO" "$WT/tests/$name.rs"
export CARGO_NET_OFFLINE=true
( cd "$WT" && cargo test --offline -q -j4 --test "$name" >/tmp/$TAG/clean.log 2>&1 ); clean=$?
echo "clean-tree demo: $([ $clean -eq 0 ] && echo PASS || echo FAIL)"
( cd "$WT" && git apply "$DIFF" ) || { echo "patch does not apply"; exit 2; }
( cd "$WT" && rm "tests/$name.rs" && cargo test --offline -q -j4 --workspace >/tmp/$TAG/suite.log 2>&1 ); suite=$?
echo "patched-tree gimli test suite: $([ $suite -eq 0 ] && echo PASS || echo FAIL)"
cp "$DEMO" "$WT/tests/$name.rs"
( cd "$WT" && cargo test --offline -q -j4 --test "$name" >/tmp/$TAG/patched.log 2>&1 ); patched=$?
echo "patched-tree demo: $([ $patched -ne 0 ] && echo FAIL-as-expected || echo PASS-unexpected)"
rm "$WT/tests/$name.rs"
( cd "$WT" && git diff > /tmp/$TAG/full.diff )
"$ROOT/mutcheck.sh" /tmp/$TAG/full.diff "$PID" quick > /tmp/$TAG/check.log 2>&1; chk=$?
echo "./check $PID on patched tree: exit $chk $(grep -c '^VIOLATION' /tmp/$TAG/check.log) violation line(s)"
grep '^VIOLATION' /tmp/$TAG/check.log | head -3
[ $clean -eq 0 ] && [ $suite -eq 0 ] && [ $patched -ne 0 ]
