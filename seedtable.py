#!/usr/bin/env python3
"""seedtable.py — markdown table of the seeded changes under seeded/ and which check caught each (from verified.txt)."""
import json, os, re, glob
rows = []
for d in sorted(glob.glob('/verif/seeded/C??-seed?')):
    name = os.path.basename(d)
    pid = name[:3]
    meta = json.load(open(d + '/meta.json'))
    txt = open(d + '/verified.txt').read() if os.path.exists(d + '/verified.txt') else ''
    # the last run block decides for the seed's own property; any block may show another property catching it
    blocks = txt.split('--- run')
    last_own = [b for b in blocks if ' against ' not in b.split('\n')[0]]
    own = bool(last_own and re.search(r'^VIOLATION property=' + pid, last_own[-1], re.M))
    nofail = bool(last_own and re.search(r'^VIOLATION property=' + pid + r'.*no-failing-input-found', last_own[-1], re.M))
    concrete = bool(last_own and re.search(r'^VIOLATION property=' + pid + r' replay=\S+$', last_own[-1], re.M))
    others = sorted(set(re.findall(r'^VIOLATION property=(C\d\d)', txt, re.M)) - {pid})
    demo_ok = 'patched-tree demo: FAIL-as-expected' in txt and 'clean-tree demo: PASS' in txt and 'gimli test suite: PASS' in txt
    if own:
        res = pid + (' (concrete input)' if concrete else ' (tie broken, no-failing-input-found)')
    elif others:
        res = 'not by ' + pid + '; caught by ' + ', '.join(others)
    elif not txt:
        res = 'not yet run'
    else:
        res = '**missed**'
    rows.append((name, meta['breaks'].replace('|', '/'), res, 'yes' if demo_ok else '?'))
import sys
out = ['| seeded change | what it breaks | caught by | demo confirmed |', '|---|---|---|---|'] + ['| %s | %s | %s | %s |' % r for r in rows]
if '--design' in sys.argv:
    d = open('/verif/DESIGN.md').read()
    a, b = '<!-- seedtable:begin -->', '<!-- seedtable:end -->'
    i, j = d.index(a) + len(a), d.index(b)
    open('/verif/DESIGN.md', 'w').write(d[:i] + '\n' + '\n'.join(out) + '\n' + d[j:])
else:
    print('\n'.join(out))
