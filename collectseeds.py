#!/usr/bin/env python3
"""collectseeds.py log... — turn seedverify.sh queue logs into seeded/<id>-seedN/verified.txt (latest block wins)."""
import re, sys, os
blocks = {}
def _num(p):
    m = re.search(r'(\d+)\.log$', p)
    return int(m.group(1)) if m else 0
for path in sorted(sys.argv[1:], key=_num):
    cur = None
    for line in open(path, errors='replace'):
        m = re.match(r'=== (?:recheck )?(C\d\d) seed(\d)(.*)', line)
        if m:
            cur = (m.group(1), m.group(2)); extra = m.group(3).strip()
            blocks.setdefault(cur, [])
            blocks[cur].append('--- run' + (' ' + extra if extra else '') + ' (' + os.path.basename(path) + ')\n')
            continue
        if line.startswith('=== '): cur = None; continue
        if cur: blocks[cur].append(line)
for (pid, s), lines in sorted(blocks.items()):
    d = f'seeded/{pid}-seed{s}'
    if os.path.isdir(d):
        open(d + '/verified.txt', 'w').write(''.join(lines))
        txt = ''.join(lines)
        own = re.search(r'^VIOLATION property=' + pid, txt, re.M)
        other = sorted(set(re.findall(r'^VIOLATION property=(C\d\d)', txt, re.M)) - {pid})
        det = 'DETECTED' if own else ('detected-by-' + ','.join(other) if other else 'not-detected-by-' + pid)
        print(pid, 'seed' + s, det)
