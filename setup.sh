#!/bin/sh
# MANIFEST.setup_cmd — build the whole framework offline from files on disk.
set -e
cd "$(dirname "$0")"
export CARGO_NET_OFFLINE=true
# start from clean build state: a copy of this directory may have been taken in the middle of a build
# (stale coq/.Makefile.d, half-written .vo files), so nothing compiled is reused
find coq \( -name '*.vo' -o -name '*.vos' -o -name '*.vok' -o -name '*.glob' -o -name '.*.aux' \) -delete 2>/dev/null || true
rm -f coq/.Makefile.d coq/Makefile coq/Makefile.conf coq/.lia.cache coq/.nia.cache
rm -rf ocaml/_build ocaml/extracted ocaml/gv-model .work
./mkproject.sh
[ -f translate/tables.py ] && python3 translate/tables.py /repo coq/Gen || true
( cd coq && coq_makefile -f _CoqProject -o Makefile >/dev/null && timeout 7200 make -j16 2>&1 | tail -n 30 )
sh ocaml/build.sh
[ -f harness/Cargo.lock ] || cp /repo/Cargo.lock harness/Cargo.lock
( cd harness && cargo build --offline -q && cargo build --offline -q --release )
echo setup-ok
